"""
C11 -- Authorization and accounting attributes cover every resource, in any order.

Per-sliver contribution contracts on the real collector methods (ResourceAuthZAttributes._collect_attributes_from_node_sliver /
_ns_sliver, transform_to_pdp_request, fromtimedelta; LogCollector counterparts): after the call every attribute list is the
previous list plus exactly this sliver's contribution, nothing contributed earlier is removed (monotone), and two services
applied in either order give the same attribute sets.  Sliver attribute values (site, cpu/ram/disk/bw, component types,
service type, mirrored port) are symbolic.  BOUNDED part: the attribute lists collected BEFORE the call hold 0..2 entries.
The walk over a whole topology (_collect_attributes_from_topo/_asm) calls these collectors once per element; that part needs
the topology API and is covered only through the per-element contracts (see DESIGN.md).
"""
import datetime

import z3

from pyvc.harness import Contract, snapshot
from pyvc.spec import (And, Or, Not, Implies, Iff, eq, same, returned, raised, Ite, fld, items, keys, values, is_none, has)
from pyvc.values import PObj, PDict, PList, PSet, is_sym
from pyvc.nxmodel import PDefaultDict
from fim.authz.attribute_collector import ResourceAuthZAttributes as RA
from fim.logging.log_collector import LogCollector
from fim.slivers.network_node import NodeSliver, NodeType
from fim.slivers.network_service import NetworkServiceSliver, ServiceType
from fim.slivers.attached_components import ComponentSliver, ComponentType, AttachedComponentsInfo
from fim.slivers.capacities_labels import Capacities

TA = 'fim.authz.attribute_collector:ResourceAuthZAttributes.'
TL = 'fim.logging.log_collector:LogCollector.'
CAPF = list(Capacities().__dict__.keys())
BOUND = 'attribute lists collected before the call hold 0..2 entries'


def blank(cls):
    return dict(cls().__dict__)


def prior_list(g, name, mk, maxn=2):
    n = g.choice(maxn + 1, f'entries already in {name}')
    return PList([mk(f'{name}{i}') for i in range(n)])


def collector(g, keys_kinds):
    """collector whose attribute lists already hold 0..2 symbolic entries"""
    d = PDefaultDict(list)
    d.e[RA.RESOURCE_TYPE] = [True, PList(['sliver'])]
    for k, kind in keys_kinds:
        l = prior_list(g, k.rsplit(':', 1)[-1].rsplit('-', 1)[-1], (lambda n: g.atom(n)) if kind == 'atom' else (lambda n: g.int(n, lo=0)))
        if len(l.items) or g.choice(2, f'key {k.rsplit(":", 1)[-1]} present although empty') == 0:
            d.e[k] = [True, l]
    return PObj(RA, {'_attributes': d})


def caps(g, name, **syms):
    if g.choice(2, f'{name} has capacities?') == 1:
        return None
    f = {k: 0 for k in CAPF}
    for k in syms:
        f[k] = g.int(f'{name}.{k}', lo=0)
    return PObj(Capacities, f)


def attr_list(c, k):
    """attribute list under key k as a python list ([] if the key is absent)"""
    d = fld(c, '_attributes')
    if not has(d, k):
        return []
    return items(fld(d, k))


def lists_eq(a, b):
    return len(a) == len(b) and And(*[same(x, y) for x, y in zip(a, b)])


def appended(before, after, extra):
    """after == before + extra (extra: list of (cond, value): the values whose cond holds, in order)"""
    alts = []
    import itertools
    n = len(extra)
    for mask in itertools.product([False, True], repeat=n):
        sel = [v for (c, v), m in zip(extra, mask) if m]
        cond = And(*[(c if m else Not(c)) for (c, v), m in zip(extra, mask)])
        alts.append(And(cond, lists_eq(after, list(before) + sel)))
    return Or(*alts)


def member(x, lst):
    return Or(*[eq(x, y) for y in lst])


def other_keys_unchanged(pre_c, post_c, touched):
    d0, d1 = fld(pre_c, '_attributes'), fld(post_c, '_attributes')
    out = []
    for k in set(keys(d0)) | set(keys(d1)):
        if k in touched:
            continue
        out.append(lists_eq(attr_list(pre_c, k), attr_list(post_c, k)))
    return And(*out)


class NodeContrib(Contract):
    target = TA + '_collect_attributes_from_node_sliver'
    props = ('C11',)
    bounded = BOUND
    max_paths = 60000
    cost = 10

    def inputs(self, g):
        c = collector(g, [(RA.RESOURCE_CPU, 'int'), (RA.RESOURCE_SITE, 'atom'), (RA.RESOURCE_COMPONENT, 'atom')])
        f = blank(NodeSliver)
        f['resource_type'] = g.pick([NodeType.VM, NodeType.Switch, None], 'node type')
        f['capacities'] = caps(g, 'node', core=1, ram=1, disk=1)
        f['site'] = g.atom('site') if g.choice(2, 'site set?') == 0 else None
        ncomp = g.choice(3, 'number of components')
        if ncomp or g.choice(2, 'component info present?') == 0:
            devs = PDict()
            for i in range(ncomp):
                cf = blank(ComponentSliver)
                cf['resource_name'] = f'c{i}'
                cf['resource_type'] = g.pick([ComponentType.GPU, ComponentType.SmartNIC], f'type of component {i}')
                devs.e[f'c{i}'] = [True, PObj(ComponentSliver, cf)]
            f['attached_components_info'] = PObj(AttachedComponentsInfo, {'devices': devs, 'by_type': PDict()})
        return [c, PObj(NodeSliver, f)], {}

    def body(self, h, c, sl):
        return h.call(RA._collect_attributes_from_node_sliver, c, sl)

    @staticmethod
    def _c(pre, post):
        if not returned(post):
            return False
        c0, sl = pre.args
        c1 = post.args[0]
        cap = fld(sl, 'capacities')
        site = fld(sl, 'site')
        out = []
        for key, fname in ((RA.RESOURCE_CPU, 'core'), (RA.RESOURCE_RAM, 'ram'), (RA.RESOURCE_DISK, 'disk')):
            out.append(lists_eq(attr_list(c1, key), attr_list(c0, key) + ([fld(cap, fname)] if cap is not None else [])))
        s0 = attr_list(c0, RA.RESOURCE_SITE)
        out.append(appended(s0, attr_list(c1, RA.RESOURCE_SITE), [] if site is None else [(Not(member(site, s0)), site)]))
        info = fld(sl, 'attached_components_info')
        comps = [] if info is None else [str(fld(x, 'resource_type')) for x in values(fld(info, 'devices'))]
        out.append(lists_eq(attr_list(c1, RA.RESOURCE_COMPONENT), attr_list(c0, RA.RESOURCE_COMPONENT) + comps))
        out.append(lists_eq(attr_list(c1, RA.RESOURCE_TYPE), ['switch-p4'] if fld(sl, 'resource_type') is NodeType.Switch else ['sliver']))
        out.append(other_keys_unchanged(c0, c1, {RA.RESOURCE_CPU, RA.RESOURCE_RAM, RA.RESOURCE_DISK, RA.RESOURCE_SITE,
                                                 RA.RESOURCE_COMPONENT, RA.RESOURCE_TYPE}))
        return And(*out)

    ensures = {'node.contribution_exact_and_monotone': lambda pre, post: NodeContrib._c(pre, post)}


EXT = {ServiceType.PortMirror: RA.RESOURCE_MIRROR_SITE, ServiceType.FABNetv4Ext: RA.RESOURCE_FABNETV4_EXT,
       ServiceType.FABNetv6Ext: RA.RESOURCE_FABNETV6_EXT}


def gen_ns(g, name):
    f = blank(NetworkServiceSliver)
    f['resource_type'] = g.pick([ServiceType.L2Bridge, ServiceType.PortMirror, ServiceType.FABNetv4Ext, ServiceType.FABNetv6Ext],
                                f'{name} type')
    f['capacities'] = caps(g, name, bw=1)
    f['site'] = g.atom(f'{name}.site') if g.choice(2, f'{name} site set?') == 0 else None
    if f['resource_type'] is ServiceType.PortMirror:
        f['mirror_port'] = g.atom(f'{name}.port')
    return PObj(NetworkServiceSliver, f)


def ns_expected(c0, c1, sl, in_slice):
    """the statement, per service: bandwidth; site; and for externally routed / mirror services the per-type site attribute --
    for a mirror only when the mirrored port is NOT in the slice; nothing collected earlier is removed"""
    cap = fld(sl, 'capacities')
    site = fld(sl, 'site')
    t = fld(sl, 'resource_type')
    out = [lists_eq(attr_list(c1, RA.RESOURCE_BW), attr_list(c0, RA.RESOURCE_BW) + ([fld(cap, 'bw')] if cap is not None else []))]
    s0 = attr_list(c0, RA.RESOURCE_SITE)
    out.append(appended(s0, attr_list(c1, RA.RESOURCE_SITE), [] if site is None else [(Not(member(site, s0)), site)]))
    touched = {RA.RESOURCE_BW, RA.RESOURCE_SITE}
    if t in EXT:
        k = EXT[t]
        touched.add(k)
        S = site if site is not None else 'UNKNOWN-SITE'
        l0 = attr_list(c0, k)
        if t is ServiceType.PortMirror:
            exempt = member(fld(sl, 'mirror_port'), items(in_slice))
        else:
            exempt = False
        out.append(appended(l0, attr_list(c1, k), [(And(Not(exempt), Not(member(S, l0))), S)]))
    out.append(other_keys_unchanged(c0, c1, touched))
    return And(*out)


class NsContrib(Contract):
    target = TA + '_collect_attributes_from_ns_sliver'
    props = ('C11',)
    bounded = BOUND
    max_paths = 60000
    cost = 10

    def inputs(self, g):
        c = collector(g, [(RA.RESOURCE_BW, 'int'), (RA.RESOURCE_SITE, 'atom'), (RA.RESOURCE_MIRROR_SITE, 'atom'),
                          (RA.RESOURCE_FABNETV4_EXT, 'atom')])
        sl = gen_ns(g, 'ns')
        ports = PSet([g.atom('inslice')] if g.choice(2, 'a port is in the slice?') == 0 else [])
        return [c, sl, ports], {}

    def body(self, h, c, sl, ports):
        return h.call(RA._collect_attributes_from_ns_sliver, c, sl, ports)

    ensures = {'ns.contribution_exact_and_monotone': lambda pre, post: returned(post) and ns_expected(
        pre.args[0], post.args[0], pre.args[1], pre.args[2])}


class TwoServicesAnyOrder(Contract):
    """the collected attribute SETS do not depend on the order in which two services are visited"""
    target = TA + '_collect_attributes_from_ns_sliver'
    props = ('C11',)
    bounded = BOUND + '; two services'
    max_paths = 80000
    cost = 40

    def inputs(self, g):
        d = PDefaultDict(list)
        d.e[RA.RESOURCE_TYPE] = [True, PList(['sliver'])]
        if g.choice(2, 'a mirror site already listed?') == 0:
            d.e[RA.RESOURCE_MIRROR_SITE] = [True, PList([g.atom('m0')])]
        c = PObj(RA, {'_attributes': d})

        def mk(name):
            f = blank(NetworkServiceSliver)
            f['resource_type'] = g.pick([ServiceType.PortMirror, ServiceType.FABNetv4Ext], f'{name} type')
            f['site'] = g.atom(f'{name}.site') if g.choice(2, f'{name} site set?') == 0 else None
            if f['resource_type'] is ServiceType.PortMirror:
                f['mirror_port'] = g.atom(f'{name}.port')
            return PObj(NetworkServiceSliver, f)
        a, b = mk('a'), mk('b')
        ports = PSet([g.atom('inslice')] if g.choice(2, 'a port is in the slice?') == 0 else [])
        c2, a2, b2 = snapshot((c, a, b))
        return [c, a, b, c2, a2, b2, ports], {}

    def body(self, h, c, a, b, c2, a2, b2, ports):
        f = RA._collect_attributes_from_ns_sliver
        h.call(f, c, a, ports)
        h.call(f, c, b, ports)
        h.call(f, c2, b2, ports)
        h.call(f, c2, a2, ports)
        return None

    @staticmethod
    def _c(pre, post):
        if not returned(post):
            return False
        c, c2 = post.args[0], post.args[3]
        out = []
        ks = set(keys(fld(c, '_attributes'))) | set(keys(fld(c2, '_attributes')))
        for k in ks:
            x, y = attr_list(c, k), attr_list(c2, k)
            if k == RA.RESOURCE_BW:
                continue      # a multiset, compared below
            out.append(And(*[member(v, y) for v in x], *[member(v, x) for v in y]))
        x, y = attr_list(c, RA.RESOURCE_BW), attr_list(c2, RA.RESOURCE_BW)
        out.append(len(x) == len(y))
        return And(*out)

    ensures = {'order_independent_attribute_sets': lambda pre, post: TwoServicesAnyOrder._c(pre, post)}


class PdpRequest(Contract):
    """every collected attribute appears exactly once, in the category its table assigns, value list intact"""
    target = TA + 'transform_to_pdp_request'
    props = ('C11',)
    bounded = 'one or two attribute keys present at a time (the loop treats keys independently)'

    def inputs(self, g):
        ks = list(RA.ATTRIBUTE_TYPES_AND_CATEGORIES.keys())
        k1 = g.pick(ks, 'first key')
        d = PDefaultDict(list)
        d.e[k1] = [True, PList([g.atom('v1'), g.atom('v2')])]
        if g.choice(2, 'second key?') == 0:
            k2 = g.pick([k for k in ks if k != k1], 'second key')
            d.e[k2] = [True, PList([g.atom('w1')])]
        return [PObj(RA, {'_attributes': d})], dict(as_json=False)

    def body(self, h, c, **kw):
        return h.call(RA.transform_to_pdp_request, c, **kw)

    @staticmethod
    def _c(pre, post):
        if not returned(post):
            return False
        c0 = pre.args[0]
        d0 = fld(c0, '_attributes')
        cats = items(fld(fld(post.result, 'Request'), 'Category'))
        out = []
        for k in keys(d0):
            want_type, want_cat = RA.ATTRIBUTE_TYPES_AND_CATEGORIES[k]
            hits = []
            for cat in cats:
                for a in items(fld(cat, 'Attribute')):
                    if fld(a, 'AttributeId') == k:
                        hits.append((fld(cat, 'CategoryId'), a))
            out.append(len(hits) == 1 and hits[0][0] == want_cat and fld(hits[0][1], 'DataType') == want_type
                       and lists_eq(items(fld(hits[0][1], 'Value')), items(fld(d0, k))))
        total = sum(len(items(fld(cat, 'Attribute'))) for cat in cats)
        out.append(total == len(keys(d0)))
        return And(*out)

    ensures = {'pdp.every_attribute_once_in_its_category': lambda pre, post: PdpRequest._c(pre, post)}


class FromTimeDelta(Contract):
    """days/hours/minutes/seconds recompose to the whole number of seconds of the interval (unbounded integers)"""
    target = TA + 'fromtimedelta'
    props = ('C11',)

    @classmethod
    def run_custom(cls, tier, seed):
        # timedelta is a C type: the arithmetic after td.days / td.total_seconds() is verified on the real AST with symbolic
        # days and total seconds (0 <= ts - days*86400 < 86400 by the normalisation invariant of timedelta)
        from pyvc import loader
        from pyvc.interp import Ctx, Shared, Interp, Frame, ReturnSig
        from pyvc.harness import Gen
        import ast
        info = loader.func_info(RA.fromtimedelta)
        sh = Shared()
        ctx = Ctx([], sh)
        I = Interp(ctx)
        g = Gen(ctx)
        days, rem = g.int('days', lo=0), g.int('rem')
        ctx.assume(z3.And(rem.t >= 0, rem.t < 86400, days.t * 86400 + rem.t > 0))

        class TD:
            pass
        from pyvc.values import BuiltinMethod, mk

        class FakeTD:
            def pyvc_getattr(self, I, name):
                if name == 'days':
                    return days
                if name == 'total_seconds':
                    return BuiltinMethod(self, name)
                raise AttributeError(name)

            def pyvc_method(self, I, name, args, kw):
                return mk(days.t * 86400 + rem.t, 'int')      # int(td.total_seconds()) for a whole-second interval
        fr = Frame(RA.fromtimedelta.__globals__, RA, None, RA.fromtimedelta)
        fr.locals['td'] = FakeTD()
        try:
            I.exec_block(info['node'].body, fr)
            res = None
        except ReturnSig as r:
            res = r.value
        ok = False
        reason = 'no result'
        if isinstance(res, tuple) and len(res) == 4:
            d, h, m, s = [x.t if is_sym(x) else z3.IntVal(x) for x in res]
            goal = z3.And(d == days.t, d * 86400 + h * 3600 + m * 60 + s == days.t * 86400 + rem.t, h >= 0, h < 24, m >= 0, m < 60,
                          s >= 0, s < 60)
            r = ctx.check(z3.Not(goal))
            ok = r == z3.unsat
            reason = '' if ok else f'solver: {r}'
        st = dict(status='discharged' if ok else 'violated', paths=1, solver_s=0.0, backend='z3', witness=None, confirmed=False,
                  reason=reason)
        return dict(contract=cls.__name__, target=cls.target, clauses={'lifetime.recomposes': st}, paths=1, feasible_paths=1,
                    unsupported=[], faults=[], crosscheck=dict(compared=0, mismatches=[]),
                    functions={info['qualname']: dict(file=info['file'], first=info['first'], last=info['last'], sha=info['sha'])},
                    trusted=['datetime.timedelta: days >= 0 and 0 <= seconds-of-day < 86400 for a positive interval; '
                             'int(total_seconds()) = days*86400 + seconds-of-day'], solver_calls=1, solver_s=0)


# ------------------------------------------------------------------------------------------- accounting summary
def log_collector(g):
    d = PDict({'nodes': PList([]), 'core_count': g.int('cores', lo=0), 'vm_count': g.int('vms', lo=0), 'p4_count': g.int('p4s', lo=0),
               'components': PDict({'GPU': g.int('gpus', lo=1)} if g.choice(2, 'GPUs counted already?') == 0 else {}),
               'services': PList([]), 'facilities': PSet([]), 'sites': PSet([g.atom('s0')] if g.choice(2, 'a site already?') == 0 else [])})
    return PObj(LogCollector, {'_attributes': d})


class LogNode(Contract):
    """each counter increases by exactly this node's amount (all previous tallies symbolic, unbounded integers)"""
    target = TL + '_collect_attributes_from_node_sliver'
    extra_targets = (TL + '_collect_attributes_from_component_sliver',)
    props = ('C11',)
    max_paths = 60000
    cost = 10

    def inputs(self, g):
        c = log_collector(g)
        f = blank(NodeSliver)
        f['resource_type'] = g.pick([NodeType.VM, NodeType.Switch, NodeType.Facility, NodeType.Server], 'node type')
        f['resource_name'] = 'n'
        f['capacities'] = caps(g, 'cap', core=1)
        f['capacity_allocations'] = caps(g, 'alloc', core=1)
        f['site'] = g.atom('site') if g.choice(2, 'site set?') == 0 else None
        ncomp = g.choice(3, 'number of components')
        if ncomp:
            devs = PDict()
            for i in range(ncomp):
                cf = blank(ComponentSliver)
                cf['resource_name'] = f'c{i}'
                cf['resource_type'] = g.pick([ComponentType.GPU, ComponentType.SmartNIC], f'type of component {i}')
                devs.e[f'c{i}'] = [True, PObj(ComponentSliver, cf)]
            f['attached_components_info'] = PObj(AttachedComponentsInfo, {'devices': devs, 'by_type': PDict()})
        return [c, PObj(NodeSliver, f)], {}

    def body(self, h, c, sl):
        return h.call(LogCollector._collect_attributes_from_node_sliver, c, sl)

    @staticmethod
    def _c(pre, post):
        if not returned(post):
            return False
        a0, a1 = fld(pre.args[0], '_attributes'), fld(post.args[0], '_attributes')
        sl = pre.args[1]
        t = fld(sl, 'resource_type')
        cap = fld(sl, 'capacity_allocations') if fld(sl, 'capacity_allocations') is not None else fld(sl, 'capacities')
        vm = t is NodeType.VM
        out = [same(fld(a1, 'vm_count'), fld(a0, 'vm_count') + (1 if vm else 0)),
               same(fld(a1, 'p4_count'), fld(a0, 'p4_count') + (1 if t is NodeType.Switch else 0)),
               same(fld(a1, 'core_count'), fld(a0, 'core_count') + (fld(cap, 'core') if vm and cap is not None else 0)),
               len(items(fld(a1, 'nodes'))) == len(items(fld(a0, 'nodes'))) + (1 if vm and cap is not None else 0)]
        fac0, fac1 = items(fld(a0, 'facilities')), items(fld(a1, 'facilities'))
        out.append(sorted(map(str, fac1)) == sorted(map(str, fac0 + (['n'] if t is NodeType.Facility else []))))
        site = fld(sl, 'site')
        s0, s1 = items(fld(a0, 'sites')), items(fld(a1, 'sites'))
        out.append(And(*[member(v, s1) for v in s0], *([member(site, s1)] if site is not None else []),
                       *[Or(member(v, s0), eq(v, site) if site is not None else False) for v in s1]))
        info = fld(sl, 'attached_components_info')
        comps = [] if info is None else [str(fld(x, 'resource_type')) for x in values(fld(info, 'devices'))]
        c0, c1 = fld(a0, 'components'), fld(a1, 'components')
        for name in set(keys(c0)) | set(keys(c1)) | set(comps):
            before = fld(c0, name) if has(c0, name) else 0
            after = fld(c1, name) if has(c1, name) else 0
            out.append(same(after, before + comps.count(name)))
        return And(*out)

    ensures = {'tally.node_counts_exact': lambda pre, post: LogNode._c(pre, post)}


class LogService(Contract):
    target = TL + '_collect_attributes_from_ns_sliver'
    props = ('C11',)

    def inputs(self, g):
        return [log_collector(g), gen_ns(g, 'ns')], {}

    def body(self, h, c, sl):
        return h.call(LogCollector._collect_attributes_from_ns_sliver, c, sl)

    @staticmethod
    def _c(pre, post):
        if not returned(post):
            return False
        a0, a1 = fld(pre.args[0], '_attributes'), fld(post.args[0], '_attributes')
        sl = pre.args[1]
        cap = fld(sl, 'capacities')
        sv0, sv1 = items(fld(a0, 'services')), items(fld(a1, 'services'))
        if len(sv1) != len(sv0) + 1:
            return False
        last = sv1[-1]
        site = fld(sl, 'site')
        s0, s1 = items(fld(a0, 'sites')), items(fld(a1, 'sites'))
        return And(last[0] == str(fld(sl, 'resource_type')), same(last[1], fld(cap, 'bw') if cap is not None else 0),
                   *[member(v, s1) for v in s0], *([member(site, s1)] if site is not None else []),
                   *[Or(member(v, s0), eq(v, site) if site is not None else False) for v in s1],
                   same(fld(a1, 'vm_count'), fld(a0, 'vm_count')), same(fld(a1, 'core_count'), fld(a0, 'core_count')))

    ensures = {'tally.service_recorded_once': lambda pre, post: LogService._c(pre, post)}


CONTRACTS = [NodeContrib, NsContrib, TwoServicesAnyOrder, PdpRequest, FromTimeDelta, LogNode, LogService]


# ------------------------------------------------------------------------------------------- whole topologies
from contracts import topo as _topo
from fim.user.topology import ExperimentTopology
from fim.slivers.capacities_labels import Labels
from fim.slivers.network_service import MirrorDirection


def _slice_a(h, port_name, site):
    """a slice whose bridge port carries the label local_name=port_name (so that name is 'in the slice' for slice A)"""
    t = h.call(ExperimentTopology)
    n = h.call(h.getattr(t, 'add_node'), name='a1', site=site)
    c = h.call(h.getattr(n, 'add_component'), name='nic', model_type=_topo.CMT('SharedNIC_ConnectX_6'))
    i = _topo.iface(h, c, 'nic-p1')
    h.call(h.getattr(t, 'add_network_service'), name='brA', nstype=ServiceType.L2Bridge, interfaces=PList([i]) if h.mode == 'sym' else [i])
    peer = _topo.pylist(h.call(h.getattr(i, 'get_peers')))[0]
    h.call(h.getattr(peer, 'set_properties'), labels=h.call(Labels, local_name=port_name))
    return t


def _slice_b(h, port_name, site1, site2, core, site3):
    """two nodes on two sites, a GPU, a facility, and a port mirror of a port that is NOT part of this slice"""
    t = h.call(ExperimentTopology)
    n1 = h.call(h.getattr(t, 'add_node'), name='b1', site=site1, capacities=h.call(Capacities, core=core, ram=8, disk=10))
    h.call(h.getattr(n1, 'add_component'), name='gpu', model_type=_topo.CMT('GPU_Tesla_T4'))
    n2 = h.call(h.getattr(t, 'add_node'), name='b2', site=site2)
    c = h.call(h.getattr(n2, 'add_component'), name='nic', model_type=_topo.CMT('SmartNIC_ConnectX_6'))
    i = _topo.iface(h, c, 'nic-p1')
    h.call(h.getattr(t, 'add_port_mirror_service'), name='mirror', from_interface_name=port_name, to_interface=i)
    # a component on a node that is not a compute node
    sw = h.call(h.getattr(t, 'add_switch'), name='sw', site=site2, nports=2)
    h.call(h.getattr(sw, 'add_component'), name='fpga', model_type=_topo.CMT('FPGA_Xilinx_U280'))
    # the facility sits at a site where the slice may have no node at all
    h.call(h.getattr(t, 'add_facility'), name='fac', site=site3, capacities=h.call(Capacities, bw=10))
    # validation records the site of single-site services (the mirror service sits where its receiving port is)
    h.call(h.getattr(t, 'validate'))
    return t


def _attrs(h, t):
    c = h.call(RA)
    h.call(h.getattr(c, 'collect_resource_attributes'), source=t)
    d = h.getattr(c, 'attributes') if False else fld(c, '_attributes')
    out = {}
    for k in keys(d):
        out[k] = list(items(fld(d, k)))
    return out


class TopologyCollection(Contract):
    """collection from a whole topology object: equals a direct tally of the slice, and does not depend on what was collected
    earlier in the same process (a fresh collector on slice B after slice A has been collected)"""
    target = TA + '_collect_attributes_from_topo'
    extra_targets = (TA + 'collect_resource_attributes', TA + '_collect_attributes_from_node', TA + '_collect_attributes_from_ns')
    props = ('C11',)
    bounded = _topo.BOUND + '; two fixed slice programs with symbolic sites, port name and core count'
    summaries = _topo.SUMMARIES
    max_paths = 4000
    cost = 60

    def inputs(self, g):
        return [g.atom('port'), g.atom('siteA'), g.atom('site1'), g.atom('site2'), g.int('core', lo=1), g.atom('site3')], {}

    def body(self, h, port, siteA, site1, site2, core, site3):
        _topo.fresh_world(h)
        alone = _attrs(h, _slice_b(h, port, site1, site2, core, site3))
        _topo.fresh_world(h)
        ta = _slice_a(h, port, siteA)
        tb = _slice_b(h, port, site1, site2, core, site3)
        first = _attrs(h, ta)
        after = _attrs(h, tb)
        return (alone, after, first)

    @staticmethod
    def _tally(pre, post):
        if not returned(post):
            return False
        port, siteA, site1, site2, core, site3 = pre.args
        alone = post.result[0]
        g = lambda k: alone.get(k, [])
        sites = g(RA.RESOURCE_SITE)
        return And(And(*[member(s, sites) for s in (site1, site2, site3)]), And(*[Or(eq(s, site1), eq(s, site2), eq(s, site3)) for s in sites]),
                   lists_eq(g(RA.RESOURCE_CPU), [core, 0]) if len(g(RA.RESOURCE_CPU)) == 2 else lists_eq(g(RA.RESOURCE_CPU), [core]),
                   lists_eq(sorted(map(str, g(RA.RESOURCE_COMPONENT))), ['FPGA', 'GPU', 'SmartNIC']),
                   lists_eq(g(RA.RESOURCE_FACILITY_PORT), ['fac']),
                   lists_eq(g(RA.RESOURCE_MIRROR_SITE), [site2]))

    @staticmethod
    def _independent(pre, post):
        if not returned(post):
            return False
        alone, after, _ = post.result
        if set(alone) != set(after):
            return False
        return And(*[lists_eq(alone[k], after[k]) for k in alone])

    ensures = {'topo.attributes_equal_a_direct_tally': lambda pre, post: TopologyCollection._tally(pre, post),
               'topo.collection_independent_of_earlier_collections': lambda pre, post: TopologyCollection._independent(pre, post)}


class MirrorExemptionFollowsTheSlice(Contract):
    """history on ONE slice: while another service of the slice uses the mirrored port the mirror is exempt; once that service
    is removed the mirror listens outside the slice and its site must be named -- also when the slice had been collected before"""
    target = TA + '_collect_attributes_from_topo'
    props = ('C11',)
    bounded = _topo.BOUND + '; one slice program (bridge + port mirror of the bridge port), collected before and after the bridge is removed'
    summaries = _topo.SUMMARIES
    max_paths = 4000
    cost = 40

    def inputs(self, g):
        return [g.atom('port'), g.atom('site1'), g.atom('site2')], {}

    def body(self, h, port, site1, site2):
        _topo.fresh_world(h)
        t = h.call(ExperimentTopology)
        n1 = h.call(h.getattr(t, 'add_node'), name='c1', site=site1)
        c1 = h.call(h.getattr(n1, 'add_component'), name='nic', model_type=_topo.CMT('SharedNIC_ConnectX_6'))
        i1 = _topo.iface(h, c1, 'nic-p1')
        h.call(h.getattr(t, 'add_network_service'), name='br', nstype=ServiceType.L2Bridge, interfaces=PList([i1]) if h.mode == 'sym' else [i1])
        peer = _topo.pylist(h.call(h.getattr(i1, 'get_peers')))[0]
        h.call(h.getattr(peer, 'set_properties'), labels=h.call(Labels, local_name=port))
        n2 = h.call(h.getattr(t, 'add_node'), name='c2', site=site2)
        c2 = h.call(h.getattr(n2, 'add_component'), name='nic', model_type=_topo.CMT('SmartNIC_ConnectX_6'))
        h.call(h.getattr(t, 'add_port_mirror_service'), name='mirror', from_interface_name=port, to_interface=_topo.iface(h, c2, 'nic-p1'))
        h.call(h.getattr(t, 'validate'))
        before = _attrs(h, t).get(RA.RESOURCE_MIRROR_SITE, [])
        h.call(h.getattr(t, 'remove_network_service'), 'br')
        after = _attrs(h, t).get(RA.RESOURCE_MIRROR_SITE, [])
        return (before, after)

    ensures = {'mirror.exempt_only_while_the_port_is_in_the_slice': lambda pre, post: returned(post) and And(
        len(post.result[0]) == 0, lists_eq(post.result[1], [pre.args[2]]))}


CONTRACTS += [TopologyCollection, MirrorExemptionFollowsTheSlice]
