"""
C08 -- Removal and disconnection delete exactly the owned structure and nothing else.

Scenario programs build a topology through the real API, then apply one removal / disconnect operation; the postcondition is
stated over canonical snapshots of the model taken before and after: the deleted set is exactly  owned(element) + the peering
artefacts created for it (service-side port and link), every other element, property and connection is as before, and the
handle through which the operation was performed reports the same interfaces as a freshly looked-up handle.
"""
from pyvc.harness import Contract
from pyvc.spec import And, Or, Not, Implies, Iff, eq, returned, raised, items
from pyvc.values import PList
from contracts import topo
from contracts.topo import (take, owned, peering_artefacts, exactly_deleted, find, nbrs, cls_of, typ_of, name_of, CMT)
from contracts.graphmodel import g_nodes
from fim.user.topology import ExperimentTopology
from fim.slivers.network_service import ServiceType
from fim.slivers.interface_info import InterfaceType

from fim.slivers.network_link import LinkType
from fim.slivers.capacities_labels import Labels

from fim.graph.networkx_property_graph_disjoint import NetworkXGraphImporterDisjoint

LEVEL = 'other'


def build(h, variant, site1, site2, backend='shared store'):
    """two VMs with NICs, optionally a bridge between them; variant picks the shape; on either in-memory back end"""
    topo.fresh_world(h)
    if backend == 'shared store':
        t = h.call(ExperimentTopology)
    else:
        t = h.call(ExperimentTopology, importer=h.call(NetworkXGraphImporterDisjoint))
    n1 = h.call(h.getattr(t, 'add_node'), name='n1', site=site1)
    c1 = h.call(h.getattr(n1, 'add_component'), name='nic1', model_type=CMT('SmartNIC_ConnectX_6'))
    n2 = h.call(h.getattr(t, 'add_node'), name='n2', site=site2)
    c2 = h.call(h.getattr(n2, 'add_component'), name='nic2', model_type=CMT('SharedNIC_ConnectX_6'))
    if variant in ('gpu', 'gpu+bridge'):
        h.call(h.getattr(n1, 'add_component'), name='gpu1', model_type=CMT('GPU_Tesla_T4'))
    ns = None
    if variant == 'sub-interfaces':
        # the dedicated port of the removed card carries sub-interfaces; one of them is connected to a service
        port = topo.iface(h, c1, 'nic1-p1')
        h.call(h.getattr(port, 'add_child_interface'), name='sub1', labels=h.call(Labels, vlan='100'))
        h.call(h.getattr(port, 'add_child_interface'), name='sub2', labels=h.call(Labels, vlan='200'))
        sub = topo.iface(h, port, 'sub1')
        i2 = topo.iface(h, c2, 'nic2-p1')
        ns = h.call(h.getattr(t, 'add_network_service'), name='br1', nstype=ServiceType.L2STS, interfaces=PList([sub, i2])
                    if h.mode == 'sym' else [sub, i2])
    if variant == 'connected port with a sub-interface':
        # the dedicated port is itself connected to the service AND carries a sub-interface
        port = topo.iface(h, c1, 'nic1-p1')
        h.call(h.getattr(port, 'add_child_interface'), name='sub1', labels=h.call(Labels, vlan='100'))
        i2 = topo.iface(h, c2, 'nic2-p1')
        ns = h.call(h.getattr(t, 'add_network_service'), name='br1', nstype=ServiceType.L2STS, interfaces=PList([port, i2])
                    if h.mode == 'sym' else [port, i2])
    if variant == 'service with a declared site':
        # the only interface of a service that was given a site by its creator
        i1 = topo.iface(h, c1, 'nic1-p1')
        ns = h.call(h.getattr(t, 'add_network_service'), name='br1', nstype=ServiceType.L2Bridge, site=site1,
                    interfaces=PList([i1]) if h.mode == 'sym' else [i1])
    if variant == 'direct link':
        # the two cards are wired port to port by a link (no service in between)
        i1 = topo.iface(h, c1, 'nic1-p1')
        i2 = topo.iface(h, c2, 'nic2-p1')
        h.call(h.getattr(t, 'add_link'), name='wire', ltype=LinkType.Patch, interfaces=PList([i1, i2]) if h.mode == 'sym' else [i1, i2])
    if variant in ('bridge', 'gpu+bridge'):
        i1 = topo.iface(h, c1, 'nic1-p1')
        i2 = topo.iface(h, c2, 'nic2-p1')
        ns = h.call(h.getattr(t, 'add_network_service'), name='br1', nstype=ServiceType.L2STS, interfaces=PList([i1, i2])
                    if h.mode == 'sym' else [i1, i2])
    return t, n1, n2, c1, c2, ns


def iface_names(h, element):
    return sorted(str(h.getattr(i, 'name')) for i in topo.pylist(h.getattr(element, 'interface_list')))


def make(opname, run, expected, variants=('plain', 'bridge', 'gpu+bridge', 'sub-interfaces', 'direct link', 'connected port with a sub-interface',
                                          'service with a declared site'), handle_check=None):
    class Op(Contract):
        target = 'fim.user.topology:Topology.remove_node'
        props = ('C08',)
        bounded = topo.BOUND
        summaries = topo.SUMMARIES
        max_paths = 2000
        cost = 30
        no_crosscheck = False

        def inputs(self, g):
            return [g.pick(list(variants), 'topology shape'), g.atom('site1'), g.atom('site2'),
                    g.pick(['shared store', 'one graph per store'], 'in-memory back end')], {}

        def body(self, h, variant, site1, site2, backend):
            t, n1, n2, c1, c2, ns = build(h, variant, site1, site2, backend)
            S0 = take(h, t)
            run(h, t, n1, n2, c1, c2, ns)
            S1 = take(h, t)
            extra = handle_check(h, t, n1, n2, c1, c2, ns) if handle_check else True
            return (S0, S1, extra)

        @staticmethod
        def _c(pre, post):
            if not returned(post):
                return False
            S0, S1, extra = post.result
            D = expected(S0, pre.args[0])
            return exactly_deleted(S0, S1, D)

        ensures = {'delete.exactly_owned_plus_peering_artefacts': lambda pre, post: Op._c(pre, post),
                   'handles.report_fresh_interfaces': lambda pre, post: returned(post) and post.result[2] is True}
    Op.__name__ = opname
    return Op


def node(S, name):
    return find(S, 'NetworkNode', name)[0]


def comp(S, name):
    return find(S, 'Component', name)[0]


def service(S, name):
    return find(S, 'NetworkService', name)[0]


def exp_remove_node(S0, variant):
    o = owned(S0, node(S0, 'n1'))
    return o | peering_artefacts(S0, o)


def exp_remove_component(S0, variant):
    o = owned(S0, comp(S0, 'nic1'))
    return o | peering_artefacts(S0, o)


def exp_remove_service(S0, variant):
    if not find(S0, 'NetworkService', 'br1'):
        return set()
    s = service(S0, 'br1')
    o = owned(S0, s)
    links = set()
    for p in o:
        if cls_of(S0, p) == 'ConnectionPoint':
            links |= set(nbrs(S0, p, cls='Link'))
    return o | links


def exp_disconnect(S0, variant):
    """service-side port peered with nic1-p1 and the link between them"""
    p = find(S0, 'ConnectionPoint', 'nic1-p1')[0]
    return peering_artefacts(S0, {p})


def fresh_service_ifaces(h, t, n1, n2, c1, c2, ns):
    if ns is None:
        return True
    fresh = h.call(h.getattr(h.getattr(t, 'network_services'), '__getitem__'), 'br1')
    return iface_names(h, ns) == iface_names(h, fresh)


def fresh_node_ifaces(h, t, n1, n2, c1, c2, ns):
    fresh = h.call(h.getattr(h.getattr(t, 'nodes'), '__getitem__'), 'n1')
    return iface_names(h, n1) == iface_names(h, fresh)


RemoveNode = make('RemoveNode', lambda h, t, n1, n2, c1, c2, ns: h.call(h.getattr(t, 'remove_node'), 'n1'), exp_remove_node)
RemoveComponent = make('RemoveComponent', lambda h, t, n1, n2, c1, c2, ns: h.call(h.getattr(n1, 'remove_component'), 'nic1'),
                       exp_remove_component, handle_check=fresh_node_ifaces)
RemoveService = make('RemoveService', lambda h, t, n1, n2, c1, c2, ns: h.call(h.getattr(t, 'remove_network_service'), 'br1'),
                     exp_remove_service, variants=('bridge', 'gpu+bridge', 'service with a declared site'))
DisconnectInterface = make('DisconnectInterface',
                           lambda h, t, n1, n2, c1, c2, ns: h.call(h.getattr(ns, 'disconnect_interface'), topo.iface(h, c1, 'nic1-p1')),
                           exp_disconnect, variants=('bridge', 'service with a declared site'), handle_check=fresh_service_ifaces)

CONTRACTS = [RemoveNode, RemoveComponent, RemoveService, DisconnectInterface]


# ------------------------------------------------------------------------------------------- sub-interfaces, peering
from fim.slivers.capacities_labels import Labels


class RemoveChildInterface(Contract):
    """a sub-interface is removed from its (dedicated) parent port: exactly that connection point goes, and the port handle
    the operation was performed through lists the same sub-interfaces as a freshly looked-up handle"""
    target = 'fim.user.interface:Interface.remove_child_interface'
    extra_targets = ('fim.user.interface:Interface.add_child_interface',)
    props = ('C08',)
    bounded = topo.BOUND
    summaries = topo.SUMMARIES
    max_paths = 2000
    cost = 30

    def inputs(self, g):
        return [g.pick(['one sub-interface', 'two sub-interfaces', 'the sub-interface is connected to a service'], 'shape'),
                g.atom('site1')], {}

    def body(self, h, shape, site1):
        topo.fresh_world(h)
        t = h.call(ExperimentTopology)
        n1 = h.call(h.getattr(t, 'add_node'), name='n1', site=site1)
        c1 = h.call(h.getattr(n1, 'add_component'), name='nic1', model_type=CMT('SmartNIC_ConnectX_6'))
        port = topo.iface(h, c1, 'nic1-p1')
        h.call(h.getattr(port, 'add_child_interface'), name='sub1', labels=h.call(Labels, vlan='100'))
        if shape == 'two sub-interfaces':
            h.call(h.getattr(port, 'add_child_interface'), name='sub2', labels=h.call(Labels, vlan='200'))
        if shape == 'the sub-interface is connected to a service':
            sub = topo.iface(h, port, 'sub1')
            h.call(h.getattr(t, 'add_network_service'), name='br1', nstype=ServiceType.L2Bridge,
                   interfaces=PList([sub]) if h.mode == 'sym' else [sub])
        S0 = take(h, t)
        h.call(h.getattr(port, 'remove_child_interface'), name='sub1')
        S1 = take(h, t)
        fresh_port = topo.iface(h, h.call(h.getattr(h.getattr(n1, 'components'), '__getitem__'), 'nic1'), 'nic1-p1')
        return (S0, S1, iface_names(h, port) == iface_names(h, fresh_port))

    ensures = {
        'delete.exactly_the_sub_interface': lambda pre, post: returned(post) and exactly_deleted(
            post.result[0], post.result[1], set(find(post.result[0], 'ConnectionPoint', 'sub1')) | peering_artefacts(
                post.result[0], set(find(post.result[0], 'ConnectionPoint', 'sub1')))),
        'handles.report_fresh_interfaces': lambda pre, post: returned(post) and post.result[2] is True,
    }


class Unpeer(Contract):
    """peer two services, then unpeer: the two facing service ports and the link between them go, nothing else; both
    service handles list the same interfaces as freshly looked-up handles"""
    target = 'fim.user.network_service:NetworkService.unpeer'
    extra_targets = ('fim.user.network_service:NetworkService.peer',)
    props = ('C08',)
    bounded = topo.BOUND
    summaries = topo.SUMMARIES
    max_paths = 2000
    cost = 30

    def inputs(self, g):
        return [g.pick(['bare services', 'first service also has a node interface'], 'shape'), g.atom('site1'),
                g.pick(['shared store', 'one graph per store'], 'in-memory back end')], {}

    def body(self, h, shape, site1, backend):
        topo.fresh_world(h)
        if backend == 'shared store':
            t = h.call(ExperimentTopology)
        else:
            t = h.call(ExperimentTopology, importer=h.call(NetworkXGraphImporterDisjoint))
        ifs = []
        if shape != 'bare services':
            n1 = h.call(h.getattr(t, 'add_node'), name='n1', site=site1)
            c1 = h.call(h.getattr(n1, 'add_component'), name='nic1', model_type=CMT('SharedNIC_ConnectX_6'))
            ifs = [topo.iface(h, c1, 'nic1-p1')]
        a = h.call(h.getattr(t, 'add_network_service'), name='nsA', nstype=ServiceType.L3VPN,
                   interfaces=PList(ifs) if h.mode == 'sym' else ifs)
        b = h.call(h.getattr(t, 'add_network_service'), name='nsB', nstype=ServiceType.L3VPN,
                   interfaces=PList([]) if h.mode == 'sym' else [])
        h.call(h.getattr(a, 'peer'), b)
        S0 = take(h, t)
        h.call(h.getattr(a, 'unpeer'), b)
        S1 = take(h, t)
        nss = h.getattr(t, 'network_services')
        fa = h.call(h.getattr(nss, '__getitem__'), 'nsA')
        fb = h.call(h.getattr(nss, '__getitem__'), 'nsB')
        return (S0, S1, iface_names(h, a) == iface_names(h, fa), iface_names(h, b) == iface_names(h, fb))

    @staticmethod
    def _expected(S0):
        pa = find(S0, 'ConnectionPoint', 'nsA-nsB')
        pb = find(S0, 'ConnectionPoint', 'nsB-nsA')
        links = set()
        for p in pa + pb:
            links |= set(nbrs(S0, p, cls='Link'))
        return set(pa) | set(pb) | links

    ensures = {
        'delete.exactly_the_peering_ports_and_link': lambda pre, post: returned(post) and exactly_deleted(
            post.result[0], post.result[1], Unpeer._expected(post.result[0])),
        'handles.report_fresh_interfaces': lambda pre, post: returned(post) and post.result[2] is True and post.result[3] is True,
    }


class RemoveServiceInterface(Contract):
    """substrate topology: a switch's service has the ports p1 and p2; remove_interface(p1) deletes exactly that port (and its
    links), and the handle through which it was removed lists the same interfaces as a freshly looked-up one"""
    target = 'fim.user.network_service:NetworkService.remove_interface'
    props = ('C08',)
    bounded = topo.BOUND
    summaries = topo.SUMMARIES
    max_paths = 2000
    cost = 20

    def inputs(self, g):
        return [g.atom('site1'), g.pick(['p1', 'p2'], 'which port is removed')], {}

    def body(self, h, site1, which):
        from fim.user.topology import Topology
        from fim.user import NodeType, InterfaceType
        topo.fresh_world(h)
        t = h.call(Topology)
        n = h.call(h.getattr(t, 'add_node'), name='sw', site=site1, ntype=NodeType.Switch)
        ns = h.call(h.getattr(n, 'add_network_service'), name='sw-ns', nstype=ServiceType.MPLS)
        h.call(h.getattr(ns, 'add_interface'), name='p1', itype=InterfaceType.TrunkPort)
        h.call(h.getattr(ns, 'add_interface'), name='p2', itype=InterfaceType.TrunkPort)
        S0 = take(h, t)
        h.call(h.getattr(ns, 'remove_interface'), name=which)
        S1 = take(h, t)
        node = h.call(h.getattr(h.getattr(t, 'nodes'), '__getitem__'), 'sw')
        fresh = h.call(h.getattr(h.getattr(node, 'network_services'), '__getitem__'), 'sw-ns')
        return (S0, S1, iface_names(h, ns) == iface_names(h, fresh), which)

    ensures = {
        'delete.exactly_the_port': lambda pre, post: returned(post) and exactly_deleted(
            post.result[0], post.result[1], set(find(post.result[0], 'ConnectionPoint', post.result[3]))),
        'handles.report_fresh_interfaces': lambda pre, post: returned(post) and post.result[2] is True,
    }


class DisconnectSameNamed(Contract):
    """one node, two cards, a sub-interface called vl100 on a port of each, both connected to one service (their service ports
    get the same derived name): disconnecting ONE of them through the service handle removes one service port, and the
    handle lists what a freshly looked-up handle lists"""
    target = 'fim.user.network_service:NetworkService.disconnect_interface'
    props = ('C08',)
    bounded = topo.BOUND
    summaries = topo.SUMMARIES
    max_paths = 2000
    cost = 30

    def inputs(self, g):
        return [g.atom('site1'), g.pick(['first', 'second'], 'which of the two is disconnected'),
                g.pick(['shared store', 'one graph per store'], 'in-memory back end')], {}

    def body(self, h, site1, which, backend):
        topo.fresh_world(h)
        if backend == 'shared store':
            t = h.call(ExperimentTopology)
        else:
            t = h.call(ExperimentTopology, importer=h.call(NetworkXGraphImporterDisjoint))
        n1 = h.call(h.getattr(t, 'add_node'), name='n1', site=site1)
        subs = []
        for cname, vlan in (('nic1', '100'), ('nic2', '100')):
            c = h.call(h.getattr(n1, 'add_component'), name=cname, model_type=CMT('SmartNIC_ConnectX_6'))
            port = topo.iface(h, c, cname + '-p1')
            h.call(h.getattr(port, 'add_child_interface'), name='vl100', labels=h.call(Labels, vlan=vlan))
            subs.append(topo.iface(h, port, 'vl100'))
        ns = h.call(h.getattr(t, 'add_network_service'), name='br1', nstype=ServiceType.L2STS,
                    interfaces=PList(subs) if h.mode == 'sym' else subs)
        before = iface_names(h, ns)
        h.call(h.getattr(ns, 'disconnect_interface'), subs[0 if which == 'first' else 1])
        fresh = h.call(h.getattr(h.getattr(t, 'network_services'), '__getitem__'), 'br1')
        return (len(before), iface_names(h, ns), iface_names(h, fresh))

    ensures = {
        'one_port_goes_and_the_handle_reports_fresh_interfaces': lambda pre, post: returned(post) and post.result[0] == 2
        and len(post.result[2]) == 1 and post.result[1] == post.result[2],
    }


CONTRACTS += [RemoveChildInterface, Unpeer, RemoveServiceInterface, DisconnectSameNamed]
