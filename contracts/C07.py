"""
C07 -- Every model the topology API builds satisfies the published graph rules.

Scenario programs (sequences of the documented building calls: add/remove node, component, facility, service, sub-interface;
connect/disconnect; peer/unpeer; failing calls in between) are executed on the real API; after EVERY call of a program the
representation invariant -- the statement's own rule list, with the vocabularies pinned from graph_validation_rules.json --
is evaluated on a canonical snapshot of the model; at the end the read-only views are compared with the class listings.
"""
import json
import os
import re

from pyvc.harness import Contract
from pyvc.spec import And, Or, Not, Implies, Iff, eq, ne, returned, raised, items
from pyvc.values import PList, is_sym
from pyvc import loader
from contracts import topo
from contracts.topo import take, CMT, find, nbrs, cls_of, typ_of, name_of, ecls
from contracts.graphmodel import g_nodes, g_attr, g_attrs, g_edges, a_keys
from fim.user.topology import ExperimentTopology
from fim.slivers.network_service import ServiceType
from fim.slivers.capacities_labels import Labels, Capacities
from fim.view_only_dict import ViewOnlyDict
import fim.graph.abc_property_graph as apg

from fim.graph.networkx_property_graph_disjoint import NetworkXGraphImporterDisjoint

LEVEL = 'other'

# ---- published vocabularies (pinned; compared with the rules file on every run)
CLASSES = ["ConnectionPoint", "NetworkNode", "CompositeNode", "NetworkService", "Component", "Link"]
TYPES = {
    'NetworkNode': ["Server", "Switch", "VM", "Container", "NAS", "Facility"],
    'Component': ["SmartNIC", "GPU", "FPGA", "NVME", "SharedNIC", "Storage"],
    'ConnectionPoint': ["AccessPort", "TrunkPort", "ServicePort", "DedicatedPort", "SharedPort", "vInt", "FacilityPort",
                        "SubInterface", "StitchPort"],
    'NetworkService': ["P4", "OVS", "MPLS", "VLAN", "L2Path", "L2Bridge", "L2PTP", "L2STS", "FABNetv4", "FABNetv6", "FABNetv4Ext",
                       "FABNetv6Ext", "L3VPN", "PortMirror"],
    'Link': ["L1Path", "L2Path", "Patch"],
}


def rules_pinned():
    path = os.path.join(os.path.dirname(apg.__file__), 'data', 'graph_validation_rules.json')
    rules = json.load(open(path))
    text = ' '.join(r['rule'] for r in rules)
    probs = []
    for cls, types in TYPES.items():
        m = re.search(r'MATCH \(n:%s \{GraphID: \$graphId\}\) RETURN ALL\(r IN collect\(n\) WHERE r\.Type IN \[(.*?)\]\)' % cls, text)
        got = sorted(x.strip().strip('"') for x in m.group(1).split(',')) if m else None
        if got != sorted(types):
            probs.append(f'{cls} types: file {got} != pinned {sorted(types)}')
    m = re.search(r'r\.Class IN \[(.*?)\]', text)
    got = sorted(x.strip().strip('"') for x in m.group(1).split(',')) if m else None
    if got != sorted(CLASSES):
        probs.append(f'classes: file {got} != pinned {sorted(CLASSES)}')
    if len(rules) != 13:
        probs.append(f'{len(rules)} rules in the file, 13 pinned')
    return probs


def inv(S):
    """the statement's rule list over a snapshot"""
    out = []
    N = g_nodes(S)
    for n in N:
        a = a_keys(g_attrs(S, n))
        out.append(all(k in a for k in ('NodeID', 'Class', 'Type', 'Name')))
        c = cls_of(S, n)
        out.append(c in CLASSES and typ_of(S, n) in TYPES.get(c, []))
    ids = [g_attr(S, n, 'NodeID') for n in N]
    for i in range(len(ids)):
        for j in range(i):
            out.append(ne(ids[i], ids[j]))
    for n in N:
        c = cls_of(S, n)
        if c == 'Component':
            owners = [m for m in nbrs(S, n, rel='has') if cls_of(S, m) in ('NetworkNode', 'CompositeNode')]
            out.append(len(owners) == 1)
        if c == 'ConnectionPoint':
            parents = [m for m in nbrs(S, n, rel='connects') if cls_of(S, m) == 'NetworkService'] + \
                      [m for m in nbrs(S, n, rel='connects') if cls_of(S, m) == 'ConnectionPoint' and typ_of(S, n) == 'SubInterface'
                       and typ_of(S, m) != 'SubInterface']
            out.append(len(parents) == 1)
            if typ_of(S, n) == 'ServicePort':
                peers = [q for l in nbrs(S, n, cls='Link') for q in nbrs(S, l, cls='ConnectionPoint') if q != n]
                out.append(len(peers) == 1)
        if c == 'Link':
            out.append(all(cls_of(S, m) == 'ConnectionPoint' for m in nbrs(S, n)))
    # names unique in their scope
    def uniq(names):
        return all(not _same(a, b) for i, a in enumerate(names) for b in names[:i])
    out.append(uniq([name_of(S, n) for n in N if cls_of(S, n) in ('NetworkNode', 'CompositeNode')]))
    out.append(uniq([name_of(S, n) for n in N if cls_of(S, n) == 'NetworkService' and not any(
        cls_of(S, m) in ('NetworkNode', 'Component') for m in nbrs(S, n, rel='has'))]))
    out.append(uniq([name_of(S, n) for n in N if cls_of(S, n) == 'Link']))
    for n in N:
        if cls_of(S, n) in ('NetworkNode', 'CompositeNode'):
            out.append(uniq([name_of(S, m) for m in nbrs(S, n, rel='has', cls='Component')]))
        if cls_of(S, n) == 'NetworkService':
            out.append(uniq([name_of(S, m) for m in nbrs(S, n, rel='connects', cls='ConnectionPoint')]))
    return And(*out)


def _same(a, b):
    if is_sym(a) or is_sym(b):
        return a is b
    return a == b


def L(h, xs):
    return PList(xs) if h.mode == 'sym' else list(xs)


PROGRAMS = {}


def program(name):
    def deco(f):
        PROGRAMS[name] = f
        return f
    return deco


def two_nodes(h, t, s1, s2, step):
    n1 = h.call(h.getattr(t, 'add_node'), name='n1', site=s1); step()
    c1 = h.call(h.getattr(n1, 'add_component'), name='nic1', model_type=CMT('SmartNIC_ConnectX_6')); step()
    n2 = h.call(h.getattr(t, 'add_node'), name='n2', site=s2); step()
    c2 = h.call(h.getattr(n2, 'add_component'), name='nic2', model_type=CMT('SharedNIC_ConnectX_6')); step()
    return n1, n2, c1, c2


@program('build_bridge_remove')
def _(h, t, s1, s2, step):
    n1, n2, c1, c2 = two_nodes(h, t, s1, s2, step)
    h.call(h.getattr(n1, 'add_component'), name='gpu1', model_type=CMT('GPU_Tesla_T4')); step()
    i1, i2 = topo.iface(h, c1, 'nic1-p1'), topo.iface(h, c2, 'nic2-p1')
    ns = h.call(h.getattr(t, 'add_network_service'), name='br1', nstype=ServiceType.L2STS, interfaces=L(h, [i1, i2])); step()
    h.call(h.getattr(ns, 'disconnect_interface'), i2); step()
    h.call(h.getattr(ns, 'connect_interface'), i2); step()
    h.call(h.getattr(n1, 'remove_component'), 'gpu1'); step()
    h.call(h.getattr(t, 'remove_node'), 'n1'); step()
    h.call(h.getattr(t, 'remove_network_service'), 'br1'); step()


@program('rejected_calls_in_between')
def _(h, t, s1, s2, step):
    n1, n2, c1, c2 = two_nodes(h, t, s1, s2, step)
    i1, i2 = topo.iface(h, c1, 'nic1-p1'), topo.iface(h, c2, 'nic2-p1')
    h.attempt(h.getattr(t, 'add_node'), name='n1', site=s2); step()
    h.attempt(h.getattr(n1, 'add_component'), name='nic1', model_type=CMT('GPU_Tesla_T4')); step()
    h.attempt(h.getattr(t, 'add_network_service'), name='ptp', nstype=ServiceType.L2PTP, interfaces=L(h, [i1, i2])); step()
    h.call(h.getattr(t, 'add_network_service'), name='br0', nstype=ServiceType.L2Bridge, interfaces=L(h, [i2])); step()
    h.attempt(h.getattr(t, 'add_network_service'), name='br1', nstype=ServiceType.L2Bridge, interfaces=L(h, [i1, i2])); step()
    h.attempt(h.getattr(t, 'add_network_service'), name='br0', nstype=ServiceType.L2Bridge, interfaces=L(h, [i1])); step()


@program('facility_and_sub_interfaces')
def _(h, t, s1, s2, step):
    n1 = h.call(h.getattr(t, 'add_node'), name='n1', site=s1); step()
    c1 = h.call(h.getattr(n1, 'add_component'), name='nic1', model_type=CMT('SmartNIC_ConnectX_6')); step()
    port = topo.iface(h, c1, 'nic1-p1')
    h.call(h.getattr(port, 'add_child_interface'), name='sub1', labels=h.call(Labels, vlan='100')); step()
    h.call(h.getattr(port, 'add_child_interface'), name='sub2', labels=h.call(Labels, vlan='200')); step()
    fac = h.call(h.getattr(t, 'add_facility'), name='fac1', site=s2, labels=h.call(Labels, vlan='300'),
                 capacities=h.call(Capacities, bw=10)); step()
    fi = topo.pylist(h.getattr(fac, 'interface_list'))[0]
    sub = topo.iface(h, port, 'sub1')
    h.call(h.getattr(t, 'add_network_service'), name='ptp', nstype=ServiceType.L2PTP, interfaces=L(h, [sub, fi])); step()
    h.call(h.getattr(port, 'remove_child_interface'), name='sub2'); step()
    h.call(h.getattr(t, 'remove_facility'), name='fac1'); step()


@program('peer_unpeer_and_properties')
def _(h, t, s1, s2, step):
    n1 = h.call(h.getattr(t, 'add_node'), name='n1', site=s1); step()
    c1 = h.call(h.getattr(n1, 'add_component'), name='nic1', model_type=CMT('SharedNIC_ConnectX_6')); step()
    a = h.call(h.getattr(t, 'add_network_service'), name='nsA', nstype=ServiceType.L3VPN, interfaces=L(h, [topo.iface(h, c1, 'nic1-p1')])); step()
    b = h.call(h.getattr(t, 'add_network_service'), name='nsB', nstype=ServiceType.L3VPN, interfaces=L(h, [])); step()
    h.call(h.getattr(a, 'peer'), b); step()
    h.call(h.getattr(n1, 'set_properties'), image_ref='img', image_type='qcow2', capacities=h.call(Capacities, core=2, ram=8, disk=10)); step()
    h.call(h.getattr(n1, 'unset_property'), 'image_ref'); step()
    h.call(h.getattr(a, 'unpeer'), b); step()


@program('sub_interfaces_removed_with_their_owner')
def _(h, t, s1, s2, step):
    """a dedicated port with TWO sub-interfaces (one of them connected); the owner card, then the owner node, is removed"""
    n1, n2, c1, c2 = two_nodes(h, t, s1, s2, step)
    port = topo.iface(h, c1, 'nic1-p1')
    h.call(h.getattr(port, 'add_child_interface'), name='sub1', labels=h.call(Labels, vlan='100')); step()
    h.call(h.getattr(port, 'add_child_interface'), name='sub2', labels=h.call(Labels, vlan='200')); step()
    port2 = topo.iface(h, c1, 'nic1-p2')
    h.call(h.getattr(port2, 'add_child_interface'), name='sub3', labels=h.call(Labels, vlan='300')); step()
    h.call(h.getattr(port2, 'add_child_interface'), name='sub4', labels=h.call(Labels, vlan='400')); step()
    h.call(h.getattr(t, 'add_network_service'), name='br1', nstype=ServiceType.L2STS,
           interfaces=L(h, [topo.iface(h, port, 'sub1'), topo.iface(h, c2, 'nic2-p1')])); step()
    h.call(h.getattr(n1, 'remove_component'), 'nic1'); step()
    c3 = h.call(h.getattr(n1, 'add_component'), name='nic3', model_type=CMT('SmartNIC_ConnectX_6')); step()
    p3 = topo.iface(h, c3, 'nic3-p1')
    h.call(h.getattr(p3, 'add_child_interface'), name='sub5', labels=h.call(Labels, vlan='500')); step()
    h.call(h.getattr(p3, 'add_child_interface'), name='sub6', labels=h.call(Labels, vlan='600')); step()
    h.call(h.getattr(t, 'remove_node'), 'n1'); step()


@program('connections_made_after_the_service_exists')
def _(h, t, s1, s2, step):
    """interfaces connected one by one to an existing service, including ones the service type may refuse"""
    n1, n2, c1, c2 = two_nodes(h, t, s1, s2, step)
    i1, i1b, i2 = topo.iface(h, c1, 'nic1-p1'), topo.iface(h, c1, 'nic1-p2'), topo.iface(h, c2, 'nic2-p1')
    ptp = h.call(h.getattr(t, 'add_network_service'), name='ptp', nstype=ServiceType.L2PTP, interfaces=L(h, [i1])); step()
    h.attempt(h.getattr(ptp, 'connect_interface'), i2); step()           # a shared port on a point-to-point service
    h.attempt(h.getattr(ptp, 'connect_interface'), i1); step()           # already connected
    br = h.call(h.getattr(t, 'add_network_service'), name='br', nstype=ServiceType.L2Bridge, interfaces=L(h, [])); step()
    h.attempt(h.getattr(br, 'connect_interface'), i1); step()            # connected to another service
    h.call(h.getattr(br, 'connect_interface'), i1b); step()
    h.attempt(h.getattr(br, 'disconnect_interface'), i2); step()         # not connected here (may or may not have been accepted above)
    h.call(h.getattr(br, 'disconnect_interface'), i1b); step()


@program('names_stay_unique_in_their_scope')
def _(h, t, s1, s2, step):
    """attempts to create a second element of the same name in every scope, in the orders a guard could miss"""
    fac = h.call(h.getattr(t, 'add_facility'), name='shared', site=s1, labels=h.call(Labels, vlan='100'),
                 capacities=h.call(Capacities, bw=10)); step()
    h.attempt(h.getattr(t, 'add_node'), name='shared', site=s2); step()                 # a node named like a facility
    n1 = h.call(h.getattr(t, 'add_node'), name='n1', site=s1); step()
    h.attempt(h.getattr(t, 'add_facility'), name='n1', site=s2); step()                 # a facility named like a node
    ifs = [('a', h.call(Labels, vlan='100'), h.call(Capacities, bw=10)), ('a', h.call(Labels, vlan='200'), h.call(Capacities, bw=10))]
    h.attempt(h.getattr(t, 'add_facility'), name='fac2', site=s2, interfaces=L(h, ifs)); step()    # two ports of one name
    c1 = h.call(h.getattr(n1, 'add_component'), name='nic1', model_type=CMT('SmartNIC_ConnectX_6')); step()
    port = topo.iface(h, c1, 'nic1-p1')
    h.call(h.getattr(port, 'add_child_interface'), name='sub1', labels=h.call(Labels, vlan='100')); step()
    h.attempt(h.getattr(port, 'add_child_interface'), name='sub1', labels=h.call(Labels, vlan='200')); step()
    h.call(h.getattr(t, 'add_network_service'), name='svc', nstype=ServiceType.L2Bridge, interfaces=L(h, [])); step()
    h.attempt(h.getattr(t, 'add_network_service'), name='svc', nstype=ServiceType.L2STS, interfaces=L(h, [])); step()


def make(name, prog):
    class P(Contract):
        target = 'fim.user.topology:Topology.add_node'
        props = ('C07',)
        bounded = topo.BOUND
        summaries = topo.SUMMARIES
        max_paths = 2000
        cost = 60

        def inputs(self, g):
            return [g.atom('site1'), g.atom('site2'), g.pick(['shared store', 'one graph per store'], 'in-memory back end')], {}

        def body(self, h, s1, s2, backend):
            topo.fresh_world(h)
            if backend == 'shared store':
                t = h.call(ExperimentTopology)
            else:
                t = h.call(ExperimentTopology, importer=h.call(NetworkXGraphImporterDisjoint))
            snaps = []
            prog(h, t, s1, s2, lambda: snaps.append(take(h, t)))
            views = dict(
                nodes=sorted(map(str, topo.pylist(h.call(h.getattr(h.getattr(t, 'nodes'), 'keys'))))),
                services=sorted(map(str, topo.pylist(h.call(h.getattr(h.getattr(t, 'network_services'), 'keys'))))),
                facilities=sorted(map(str, topo.pylist(h.call(h.getattr(h.getattr(t, 'facilities'), 'keys'))))),
                links=sorted(map(str, topo.pylist(h.call(h.getattr(h.getattr(t, 'links'), 'keys'))))),
                interfaces=sorted(str(h.getattr(i, 'name')) for i in topo.pylist(h.getattr(t, 'interface_list'))),
            )
            return (snaps, views)

        @staticmethod
        def _views(pre, post):
            if not returned(post):
                return False
            snaps, v = post.result
            S = snaps[-1]
            N = g_nodes(S)
            nodes = sorted(str(name_of(S, n)) for n in N if cls_of(S, n) in ('NetworkNode', 'CompositeNode') and typ_of(S, n) != 'Facility')
            facs = sorted(str(name_of(S, n)) for n in N if cls_of(S, n) == 'NetworkNode' and typ_of(S, n) == 'Facility')
            svcs = sorted(str(name_of(S, n)) for n in N if cls_of(S, n) == 'NetworkService')
            links = sorted(str(name_of(S, n)) for n in N if cls_of(S, n) == 'Link')
            ifs = sorted(str(name_of(S, n)) for n in N if cls_of(S, n) == 'ConnectionPoint' and typ_of(S, n) not in ('ServicePort', 'SubInterface', 'FacilityPort'))
            return v['nodes'] == nodes and v['facilities'] == facs and v['services'] == svcs and v['links'] == links

        ensures = {
            'inv.after_every_call': lambda pre, post: returned(post) and And(*[inv(S) for S in post.result[0]]),
            'views.list_exactly_the_elements': lambda pre, post: P._views(pre, post),
        }
    P.__name__ = 'Program_' + name
    return P


class RulesPinned(Contract):
    target = 'fim.view_only_dict:ViewOnlyDict.__getitem__'
    props = ('C07',)

    @classmethod
    def run_custom(cls, tier, seed):
        probs = rules_pinned()
        # read-only views: the class offers no mutator and hands out no reference through which the model could change
        muts = [m for m in ('__setitem__', '__delitem__', 'pop', 'popitem', 'clear', 'update', 'setdefault') if hasattr(ViewOnlyDict, m)]
        info = loader.func_info(ViewOnlyDict.__getitem__)
        mk = lambda ok, why: dict(status='discharged' if ok else 'violated', paths=1, solver_s=0.0, backend='python', witness=None,
                                  confirmed=not ok, reason=why)
        return dict(contract=cls.__name__, target=cls.target, paths=1, feasible_paths=1, unsupported=[], faults=[],
                    crosscheck=dict(compared=0, mismatches=[]), trusted=[], solver_calls=0, solver_s=0,
                    functions={info['qualname']: dict(file=info['file'], first=info['first'], last=info['last'], sha=info['sha'])},
                    clauses={'rules.pinned': mk(not probs, '; '.join(probs)),
                             'views.readonly_no_mutators': mk(not muts, f'ViewOnlyDict exposes {muts}')})


CONTRACTS = [RulesPinned] + [make(n, f) for n, f in PROGRAMS.items()]
for _c in CONTRACTS:
    globals()[_c.__name__] = _c
