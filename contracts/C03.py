"""
C03 -- Attribute value codecs are lossless, canonical and never mutate their input.

Per class: RT1 decode(encode(x)) == x (nothing set <=> '' <=> absent), RT2 encode(decode(encode(x))) == encode(x),
ENC.pure (encoding does not touch x), FWD (unknown keys tolerated, known ones kept), UPD (copy-with-changes returns a new
value, original untouched), FIN (finalised maintenance record cannot be altered).
The value domain of every class is its constructor domain (the type asserts of the real _set_fields).
"""
from pyvc.harness import Contract
from pyvc.spec import (And, Or, Not, Implies, Iff, forall, eq, same, fld, has, keys, items, is_list, returned, raised,
                       fields_same, same_obj, isinst, is_none, Ite, length, is_true, is_false, is_bool, is_obj)
from pyvc.values import PList, PDict, JsonText
from fim.slivers.capacities_labels import (JSONField, Capacities, CapacityHints, Labels, ReservationInfo, StructuralInfo,
                                           Location, Flags)

T = 'fim.slivers.capacities_labels:'


def defaults(cls):
    return dict(cls().__dict__)


# field domains = constructor domain of each class (read: the asserts in the real _set_fields)
def dom_capacities(g, n):
    return g.int(n, lo=0)


def dom_str_or_none(g, n):
    return g.U(n, ('none', 'str'))


def dom_str_or_list_or_none(g, n):
    return g.U(n, ('none', 'str', 'list'))      # a list value is an opaque handle: these classes only store it


def dom_location(g, n):
    return g.U(n, ('none', 'str', 'real'))


def dom_flag(g, n):
    return g.bool(n)


FAMILY = {
    Capacities: dom_capacities,
    CapacityHints: dom_str_or_none,
    ReservationInfo: dom_str_or_list_or_none,
    StructuralInfo: dom_str_or_list_or_none,
    Location: dom_location,
    Flags: dom_flag,
}


def nonnull(dom):
    """same domain without None (what a JSON text may carry for a known key)"""
    def d(g, n):
        v = dom(g, n)
        from pyvc.values import is_sym, V
        if is_sym(v) and v.k == 'U':
            import z3
            g.assume(z3.Not(V.is_none(v.t)))
        return v
    return d


def make_family(cls, dom):
    fields = list(defaults(cls).keys())
    dflt = defaults(cls)
    cname = cls.__name__

    def mk_obj(g, name='x'):
        return g.obj(cls, **{f: dom(g, f'{name}.{f}') for f in fields})

    def nothing_set(x):
        return forall(fields, lambda f: same(fld(x, f), dflt[f]))

    class RoundTrip(Contract):
        target = T + f'{cname}.to_json'
        extra_targets = (T + f'{cname}.from_json', T + f'{cname}._set_fields', T + f'{cname}.__init__')
        props = ('C03',)

        def inputs(self, g):
            return [mk_obj(g)], {}

        def body(self, h, x):
            s = h.call(cls.to_json, x)
            y = h.call(cls.from_json, s)
            s2 = None if y is None else h.call(cls.to_json, y)
            return (s, y, s2)

        ensures = {
            'rt1.decode_encode': lambda pre, post: And(returned(post), (
                nothing_set(pre.args[0]) if post.result[1] is None else
                And(isinst(post.result[1], cls), forall(fields, lambda f: same(fld(post.result[1], f), fld(pre.args[0], f)))))),
            'rt1.empty_iff_nothing_set': lambda pre, post: And(returned(post), Iff(eq(post.result[0], ''), nothing_set(pre.args[0]))
                                                               if cls is not Flags else True),
            'rt2.reencode_identical': lambda pre, post: And(returned(post), (
                eq(post.result[0], '') if post.result[1] is None else eq(post.result[2], post.result[0]))),
            'enc.pure': lambda pre, post: fields_same(pre.args[0], post.args[0]),
        }
    RoundTrip.__name__ = f'{cname}RoundTrip'

    class Forward(Contract):
        """decoding a text that carries known keys (any subset) plus an unknown key"""
        target = T + f'{cname}.from_json'
        extra_targets = (T + f'{cname}._set_fields',)
        props = ('C03',)

        def inputs(self, g):
            d = PDict()
            nn = nonnull(dom)
            for f in fields:
                if g.choice(2, f'{f} present?') == 0:
                    d.e[f] = [True, nn(g, f'j.{f}')]
            d.e['zz_future_field'] = [True, nn(g, 'j.zz_future_field')]
            return [JsonText(d, True)], {}

        def body(self, h, s):
            return h.call(cls.from_json, s)

        @staticmethod
        def _sent(pre):
            import json
            s = pre.args[0]
            return s.value if isinstance(s, JsonText) else json.loads(s)

        ensures = {
            'fwd.tolerates_unknown': lambda pre, post: And(returned(post), isinst(post.result, cls)),
            'fwd.keeps_known': lambda pre, post: And(returned(post), isinst(post.result, cls), forall(fields, lambda f: (
                same(fld(post.result, f), fld(Forward._sent(pre), f)) if has(Forward._sent(pre), f)
                else same(fld(post.result, f), dflt[f]))), keys(post.result) == fields),
        }
    Forward.__name__ = f'{cname}Forward'

    class Update(Contract):
        target = T + 'JSONField.update'
        extra_targets = (T + f'{cname}._set_fields',)
        props = ('C03',)

        def inputs(self, g):
            x = mk_obj(g)
            nn = nonnull(dom)
            kw = {}
            for f in fields:
                if g.choice(2, f'{f} changed?') == 0:
                    kw[f] = nn(g, f'kw.{f}')
            return [x], kw

        def body(self, h, x, **kw):
            return h.call(cls.update, x, **kw)

        ensures = {
            'upd.new_value': lambda pre, post: And(returned(post), isinst(post.result, cls),
                                                   not same_obj(post.result, post.args[0])),
            'upd.original_untouched': lambda pre, post: fields_same(pre.args[0], post.args[0]),
            'upd.result': lambda pre, post: And(returned(post), keys(post.result) == fields, forall(fields, lambda f: same(
                fld(post.result, f), pre.kwargs[f] if f in pre.kwargs else fld(pre.args[0], f)))),
        }
    Update.__name__ = f'{cname}Update'
    return [RoundTrip, Forward, Update]


CONTRACTS = []
for _cls, _dom in FAMILY.items():
    for _c in make_family(_cls, _dom):
        globals()[_c.__name__] = _c
        CONTRACTS.append(_c)
