"""
C03 -- Attribute value codecs are lossless, canonical and never mutate their input.

Per class: RT1 decode(encode(x)) == x (nothing set <=> '' <=> absent), RT2 encode(decode(encode(x))) == encode(x),
ENC.pure (encoding does not touch x), FWD (unknown keys tolerated, known ones kept), UPD (copy-with-changes returns a new
value, original untouched), FIN (finalised maintenance record cannot be altered).
The value domain of every class is its constructor domain (the type asserts of the real _set_fields).
"""
from pyvc.harness import Contract
from pyvc.spec import (And, Or, Not, Implies, Iff, forall, eq, same, fld, has, keys, items, is_list, returned, raised,
                       fields_same, same_obj, isinst, is_none, Ite, length, is_true, is_false, is_bool, is_obj)
from pyvc.values import PList, PDict, PObj, JsonText
from fim.slivers.capacities_labels import (JSONField, Capacities, CapacityHints, Labels, ReservationInfo, StructuralInfo,
                                           Location, Flags)

T = 'fim.slivers.capacities_labels:'


def defaults(cls):
    return dict(cls().__dict__)


# field domains = constructor domain of each class (read: the asserts in the real _set_fields)
def dom_capacities(g, n):
    return g.int(n, lo=0)


def dom_str_or_none(g, n):
    return g.U(n, ('none', 'str'))


def dom_str_or_list_or_none(g, n):
    return g.U(n, ('none', 'str', 'list'))      # a list value is an opaque handle: these classes only store it


def dom_location(g, n):
    return g.U(n, ('none', 'str', 'real'))


def dom_flag(g, n):
    return g.bool(n)


FAMILY = {
    Capacities: dom_capacities,
    CapacityHints: dom_str_or_none,
    ReservationInfo: dom_str_or_list_or_none,
    StructuralInfo: dom_str_or_list_or_none,
    Location: dom_location,
    Flags: dom_flag,
}


def nonnull(dom):
    """same domain without None (what a JSON text may carry for a known key)"""
    def d(g, n):
        v = dom(g, n)
        from pyvc.values import is_sym, V
        if is_sym(v) and v.k == 'U':
            import z3
            g.assume(z3.Not(V.is_none(v.t)))
        return v
    return d


def make_family(cls, dom):
    fields = list(defaults(cls).keys())
    dflt = defaults(cls)
    cname = cls.__name__

    def mk_obj(g, name='x'):
        return g.obj(cls, **{f: dom(g, f'{name}.{f}') for f in fields})

    def nothing_set(x):
        return forall(fields, lambda f: same(fld(x, f), dflt[f]))

    class RoundTrip(Contract):
        target = T + f'{cname}.to_json'
        extra_targets = (T + f'{cname}.from_json', T + f'{cname}._set_fields', T + f'{cname}.__init__')
        props = ('C03',)

        def inputs(self, g):
            return [mk_obj(g)], {}

        def body(self, h, x):
            s = h.call(cls.to_json, x)
            y = h.call(cls.from_json, s)
            s2 = None if y is None else h.call(cls.to_json, y)
            return (s, y, s2)

        ensures = {
            'rt1.decode_encode': lambda pre, post: And(returned(post), (
                nothing_set(pre.args[0]) if post.result[1] is None else
                And(isinst(post.result[1], cls), forall(fields, lambda f: same(fld(post.result[1], f), fld(pre.args[0], f)))))),
            'rt1.empty_iff_nothing_set': lambda pre, post: And(returned(post), Iff(eq(post.result[0], ''), nothing_set(pre.args[0]))
                                                               if cls is not Flags else True),
            'rt2.reencode_identical': lambda pre, post: And(returned(post), (
                eq(post.result[0], '') if post.result[1] is None else eq(post.result[2], post.result[0]))),
            'enc.pure': lambda pre, post: fields_same(pre.args[0], post.args[0]),
        }
    RoundTrip.__name__ = f'{cname}RoundTrip'

    class Forward(Contract):
        """decoding a text that carries known keys (any subset) plus an unknown key"""
        target = T + f'{cname}.from_json'
        extra_targets = (T + f'{cname}._set_fields',)
        props = ('C03',)

        def inputs(self, g):
            d = PDict()
            nn = nonnull(dom)
            for f in fields:
                if g.choice(2, f'{f} present?') == 0:
                    d.e[f] = [True, nn(g, f'j.{f}')]
            # the unknown key may come before or after the known ones in the text; it may be a name that the CLASS (not the
            # value) happens to define (a method of the codec base class); a later version may give it a value of any JSON
            # scalar type, not only the type today's fields have
            key = g.pick(['aa_future_field', 'zz_future_field', 'to_json'], 'where the unknown key sorts / what it is called')
            d.e[key] = [True, g.U('j.future_field', allowed=('bool', 'int', 'real', 'str'))]
            return [JsonText(d, True)], {}

        def body(self, h, s):
            return h.call(cls.from_json, s)

        @staticmethod
        def _sent(pre):
            import json
            s = pre.args[0]
            return s.value if isinstance(s, JsonText) else json.loads(s)

        ensures = {
            'fwd.tolerates_unknown': lambda pre, post: And(returned(post), isinst(post.result, cls)),
            'fwd.keeps_known': lambda pre, post: returned(post) and And(isinst(post.result, cls), forall(fields, lambda f: (
                same(fld(post.result, f), fld(Forward._sent(pre), f)) if has(Forward._sent(pre), f)
                else same(fld(post.result, f), dflt[f]))), keys(post.result) == fields),
        }
    Forward.__name__ = f'{cname}Forward'

    class Update(Contract):
        target = T + 'JSONField.update'
        extra_targets = (T + f'{cname}._set_fields',)
        props = ('C03',)

        def inputs(self, g):
            x = mk_obj(g)
            nn = nonnull(dom)
            kw = {}
            for f in fields:
                if g.choice(2, f'{f} changed?') == 0:
                    kw[f] = nn(g, f'kw.{f}')
            return [x], kw

        def body(self, h, x, **kw):
            return h.call(cls.update, x, **kw)

        ensures = {
            'upd.new_value': lambda pre, post: And(returned(post), isinst(post.result, cls),
                                                   not same_obj(post.result, post.args[0])),
            'upd.original_untouched': lambda pre, post: fields_same(pre.args[0], post.args[0]),
            'upd.result': lambda pre, post: And(returned(post), keys(post.result) == fields, forall(fields, lambda f: same(
                fld(post.result, f), pre.kwargs[f] if f in pre.kwargs else fld(pre.args[0], f)))),
        }
    Update.__name__ = f'{cname}Update'
    return [RoundTrip, Forward, Update]


CONTRACTS = []
for _cls, _dom in FAMILY.items():
    for _c in make_family(_cls, _dom):
        globals()[_c.__name__] = _c
        CONTRACTS.append(_c)


# =========================================================================================== Gateway, PathInfo / ERO, MaintenanceInfo
import datetime as _dt
from pyvc.spec import values as _values, str_of_int
from fim.slivers.gateway import Gateway, GatewayException
from fim.slivers.path_info import PathInfo, ERO, Path, PathRepresentationType
from fim.slivers.maintenance_mode import MaintenanceInfo, MaintenanceEntry, MaintenanceState, MaintenanceModeException
from contracts.C16 import LABELS_SET_FIELDS, value_in_domain, LABEL_FIELDS


class GatewayRoundTrip(Contract):
    """gateway value (v4 or v6 subnet + address, optional MAC) encodes through its labels and decodes to an equal value.
    Labels._set_fields is used through its contract (proved in C16)."""
    target = 'fim.slivers.gateway:Gateway.to_json'
    extra_targets = ('fim.slivers.gateway:Gateway.from_json', 'fim.slivers.gateway:Gateway.__init__')
    props = ('C03',)
    summaries = LABELS_SET_FIELDS

    def inputs(self, g):
        fam = g.pick(['ipv4', 'ipv6'], 'family')
        f = {k: None for k in LABEL_FIELDS}
        f[fam] = g.text('addr')
        f[fam + '_subnet'] = g.text('subnet')
        if g.choice(2, 'mac?') == 0:
            f['mac'] = g.text('mac')
        for k, v in f.items():
            if v is not None:
                g.assume(value_in_domain(k, v))          # the constructor domain of Labels
        return [g.obj(Labels, **f)], {}

    def body(self, h, lab):
        gw = h.call(Gateway, lab)
        s = h.call(Gateway.to_json, gw)
        gw2 = h.call(Gateway.from_json, s)
        return (gw, s, gw2, h.call(Gateway.to_json, gw2))

    @staticmethod
    def _c(pre, post):
        if not returned(post):
            return False
        gw, s, gw2, s2 = post.result
        l1, l2 = fld(gw, 'lab'), fld(gw2, 'lab')
        lab = pre.args[0]
        keep = [k for k in LABEL_FIELDS if fld(lab, k) is not None]
        return And(l1 is not None and l2 is not None, forall(LABEL_FIELDS, lambda k: same(fld(l2, k), fld(l1, k))),
                   forall(keep, lambda k: same(fld(l1, k), fld(lab, k))), eq(s2, s), not same_obj(l1, lab))

    ensures = {'rt1+rt2.gateway': lambda pre, post: GatewayRoundTrip._c(pre, post),
               'labels_argument_untouched': lambda pre, post: fields_same(pre.args[0], post.args[0])}


class GatewayNothingSet(Contract):
    target = 'fim.slivers.gateway:Gateway.to_json'
    props = ('C03',)

    def inputs(self, g):
        return [None], {}

    def body(self, h, lab):
        gw = h.call(Gateway, lab)
        s = h.call(Gateway.to_json, gw)
        return (s, h.call(Gateway.from_json, s))

    ensures = {'nothing_set_decodes_to_nothing_set': lambda pre, post: returned(post) and (
        post.result[0] is None or post.result[0] == '') and (post.result[1] is None or fld(post.result[1], 'lab') is None)}


def _mk_path(g, name):
    f = {'a2z': g.U(f'{name}.a2z', ('none', 'list')), 'z2a': g.U(f'{name}.z2a', ('none', 'list'))}
    return PObj(Path, f)


class PathInfoRoundTrip(Contract):
    target = 'fim.slivers.path_info:PathInfo.to_json'
    extra_targets = ('fim.slivers.path_info:PathInfo.from_json', 'fim.slivers.path_info:Path.to_dict',
                     'fim.slivers.path_info:Path.from_dict', 'fim.slivers.path_info:ERO.to_json', 'fim.slivers.path_info:ERO.from_json')
    props = ('C03',)

    def inputs(self, g):
        cls = g.pick([PathInfo, ERO], 'class')
        t = g.pick([PathRepresentationType.Path, PathRepresentationType.Graph], 'representation')
        f = {'type': t, 'payload': _mk_path(g, 'p') if t is PathRepresentationType.Path else g.str('graph_id')}
        if cls is ERO:
            f['strict'] = g.bool('strict')
        return [PObj(cls, f)], {}

    def body(self, h, x):
        cls = x.cls if isinstance(x, PObj) else type(x)
        s = h.call(cls.to_json, x)
        y = h.call(cls.from_json, s)
        return (s, y, None if y is None else h.call(cls.to_json, y))

    @staticmethod
    def _c(pre, post):
        if not returned(post):
            return False
        x = pre.args[0]
        s, y, s2 = post.result
        if y is None:
            return False
        out = [fld(y, 'type') is fld(x, 'type'), eq(s2, s)]
        if fld(x, 'type') is PathRepresentationType.Path:
            out += [same(fld(fld(y, 'payload'), 'a2z'), fld(fld(x, 'payload'), 'a2z')),
                    same(fld(fld(y, 'payload'), 'z2a'), fld(fld(x, 'payload'), 'z2a'))]
        else:
            out.append(same(fld(y, 'payload'), fld(x, 'payload')))
        if has(x, 'strict'):
            out.append(Iff(is_true(fld(y, 'strict')), is_true(fld(x, 'strict'))))
        return And(*out)

    ensures = {'rt1+rt2.path_info': lambda pre, post: PathInfoRoundTrip._c(pre, post)}


class PathInfoRoundTripShapes(PathInfoRoundTrip):
    """the same round trip with the two hop lists given as real lists (absent, empty, one or two hops, independently per
    direction) instead of opaque list values: decides the clause also for code that looks INTO the lists (derives one
    direction from the other, reverses, copies ...), where the opaque form above can only answer `unsupported`"""
    bounded = 'hop lists of length <= 2 per direction (the contract above covers every list as long as the code treats it as a whole)'

    def inputs(self, g):
        cls = g.pick([PathInfo, ERO], 'class')

        def hops(nm):
            k = g.pick([None, 0, 1, 2], f'{nm}: absent / number of hops')
            return None if k is None else PList([g.str(f'{nm}{i}') for i in range(k)])
        f = {'type': PathRepresentationType.Path, 'payload': PObj(Path, {'a2z': hops('a2z'), 'z2a': hops('z2a')})}
        if cls is ERO:
            f['strict'] = g.bool('strict')
        return [PObj(cls, f)], {}

    @staticmethod
    def _c(pre, post):
        if not returned(post):
            return False
        x = pre.args[0]
        s, y, s2 = post.result
        if y is None:
            return False

        def same_list(a, b):
            if a is None or b is None:
                return a is None and b is None
            return And(is_list(a), is_list(b), eq(a, b))
        return And(fld(y, 'type') is fld(x, 'type'), eq(s2, s),
                   same_list(fld(fld(y, 'payload'), 'a2z'), fld(fld(x, 'payload'), 'a2z')),
                   same_list(fld(fld(y, 'payload'), 'z2a'), fld(fld(x, 'payload'), 'z2a')))

    ensures = {'rt1+rt2.path_info_hop_lists': lambda pre, post: PathInfoRoundTripShapes._c(pre, post)}


DT_SAMPLES = [None, _dt.datetime(2024, 2, 29, 23, 59, 59), _dt.datetime(2024, 7, 1, 12, 0, 0, 123456, tzinfo=_dt.timezone.utc),
              _dt.datetime(2025, 1, 1, 0, 0, 0, tzinfo=_dt.timezone(_dt.timedelta(hours=5, minutes=30))),
              _dt.datetime(2023, 12, 31, 20, 15, tzinfo=_dt.timezone(_dt.timedelta(hours=-4)))]


def _mk_minfo(g, finalized):
    nodes = PDict()
    for n in ('n1', 'n2'):
        if g.choice(2, f'{n} in maintenance?') == 0:
            e = PObj(MaintenanceEntry, {'state': g.pick(list(MaintenanceState), f'{n} state')})
            dl = g.pick(DT_SAMPLES, f'{n} deadline')
            if dl is not None:
                e.d.e['deadline'] = [True, dl]
            ee = g.pick(DT_SAMPLES[:3], f'{n} expected end')
            if ee is not None:
                e.d.e['expected_end'] = [True, ee]
            nm = g.atom(f'name_{n}')
            for other in nodes.e:
                g.assume(nm.t != other.t)           # keys of one dict are pairwise different
            nodes.e[nm] = [True, e]
    return PObj(MaintenanceInfo, {'_nodes': nodes, '_lock': finalized})


def _entry_fields(e):
    get = lambda o, k: (fld(o, k) if has(o, k) else None) if isinstance(o, PObj) else getattr(o, k, None)
    return get(e, 'state'), get(e, 'deadline'), get(e, 'expected_end')


class MaintenanceRoundTrip(Contract):
    """names symbolic; states: all four; timestamps: representative naive / UTC / offset values (sampled, see bounded note)"""
    target = 'fim.slivers.maintenance_mode:MaintenanceInfo.to_json'
    extra_targets = ('fim.slivers.maintenance_mode:MaintenanceInfo.from_json', 'fim.slivers.maintenance_mode:MaintenanceEntry.__init__',
                     'fim.slivers.maintenance_mode:EnhancedJSONEncoder.default', 'fim.slivers.maintenance_mode:MaintenanceState.from_string')
    props = ('C03',)
    bounded = 'at most two entries; timestamps drawn from five representative datetimes (naive, UTC, +05:30, -04:00, none)'
    max_paths = 40000
    cost = 20

    def inputs(self, g):
        return [_mk_minfo(g, True)], {}

    def body(self, h, x):
        s = h.call(MaintenanceInfo.to_json, x)
        y = h.call(MaintenanceInfo.from_json, s)
        return (s, y, None if y is None else h.call(MaintenanceInfo.to_json, y))

    @staticmethod
    def _c(pre, post):
        if not returned(post):
            return False
        x = pre.args[0]
        s, y, s2 = post.result
        n0 = fld(x, '_nodes')
        if y is None:
            return False
        n1 = fld(y, '_nodes')
        k0, k1 = keys(n0), keys(n1)
        if len(k0) != len(k1):
            return False
        out = [eq(s2, s), fld(y, '_lock') is True]
        for a, b in zip(k0, k1):
            out.append(eq(a, b))
            fa, fb = _entry_fields(fld(n0, a)), _entry_fields(fld(n1, b))
            out.append(fa[0] is fb[0])
            for u, v in zip(fa[1:], fb[1:]):
                # equal instants AND equal offsets (re-encoding must give the identical text)
                out.append((u is None and v is None) or (u is not None and v is not None and u == v
                                                          and u.utcoffset() == v.utcoffset() and u.isoformat() == v.isoformat()))
        return And(*out)

    ensures = {'rt1+rt2.maintenance_info': lambda pre, post: MaintenanceRoundTrip._c(pre, post)}


class MaintenanceFinalized(Contract):
    """a finalized maintenance record cannot be altered; one that is not finalized cannot be encoded"""
    target = 'fim.slivers.maintenance_mode:MaintenanceInfo.add'
    extra_targets = ('fim.slivers.maintenance_mode:MaintenanceInfo.rem', 'fim.slivers.maintenance_mode:MaintenanceInfo.pop',
                     'fim.slivers.maintenance_mode:MaintenanceInfo.finalize', 'fim.slivers.maintenance_mode:MaintenanceInfo.copy')
    props = ('C03',)
    bounded = 'at most two entries'
    max_paths = 40000

    def inputs(self, g):
        x = _mk_minfo(g, g.pick([False, True], 'already finalized?'))
        op = g.pick(['add', 'rem', 'pop'], 'operation')
        name = g.atom('name')
        return [x, op, name], {}

    def body(self, h, x, op, name):
        h.call(MaintenanceInfo.finalize, x)
        if op == 'add':
            e = h.call(MaintenanceEntry, MaintenanceState.Maint)
            return h.attempt(MaintenanceInfo.add, x, name, e)
        return h.attempt(getattr(MaintenanceInfo, op), x, name)

    @staticmethod
    def _c(pre, post):
        if not returned(post):
            return False
        st, val = post.result
        exc_cls = val.cls if isinstance(val, PObj) else type(val)
        n0, n1 = fld(pre.args[0], '_nodes'), fld(post.args[0], '_nodes')
        same_nodes = len(keys(n0)) == len(keys(n1)) and And(*[And(eq(a, b), same_obj(fld(n0, a), fld(n0, a))) for a, b in zip(keys(n0), keys(n1))])
        return And(st == 'exc' and issubclass(exc_cls, MaintenanceModeException), same_nodes, fld(post.args[0], '_lock') is True)

    ensures = {'fin.finalized_record_cannot_be_altered': lambda pre, post: MaintenanceFinalized._c(pre, post)}


class MaintenanceCopyIndependent(Contract):
    """copy() of a finalized record gives a record that can be edited, and editing it does not alter the finalized original
    (copy-with-changes leaves the original untouched; a finalized record cannot be altered -- not through its copy either)"""
    target = 'fim.slivers.maintenance_mode:MaintenanceInfo.copy'
    extra_targets = ('fim.slivers.maintenance_mode:MaintenanceInfo.add', 'fim.slivers.maintenance_mode:MaintenanceInfo.rem')
    props = ('C03',)
    bounded = 'at most two entries'
    max_paths = 40000

    def inputs(self, g):
        return [_mk_minfo(g, True), g.pick(['add', 'rem first entry'], 'edit made on the copy'), g.atom('new_name')], {}

    def body(self, h, x, op, name):
        c = h.call(MaintenanceInfo.copy, x)
        n0 = list(keys(fld(x, '_nodes')))
        if op == 'add' or not n0:
            e = h.call(MaintenanceEntry, MaintenanceState.Maint)
            st, _ = h.attempt(MaintenanceInfo.add, c, name, e)
        else:
            st, _ = h.attempt(MaintenanceInfo.rem, c, n0[0])
        return (st, c)

    @staticmethod
    def _c(pre, post):
        if not returned(post):
            return False
        st, c = post.result
        n0, n1 = fld(pre.args[0], '_nodes'), fld(post.args[0], '_nodes')
        same_nodes = len(keys(n0)) == len(keys(n1)) and And(*[eq(a, b) for a, b in zip(keys(n0), keys(n1))])
        return And(st == 'ok', same_nodes, fld(post.args[0], '_lock') is True, not same_obj(fld(c, '_nodes'), n1))

    ensures = {'copy.editable_and_original_untouched': lambda pre, post: MaintenanceCopyIndependent._c(pre, post)}


for _c in (GatewayRoundTrip, GatewayNothingSet, PathInfoRoundTrip, PathInfoRoundTripShapes, MaintenanceRoundTrip, MaintenanceFinalized, MaintenanceCopyIndependent):
    CONTRACTS.append(_c)

# Labels / Tags / JSON blob codecs are verified by the contracts they share with C16
from contracts import C16 as _c16
for _c in _c16.CONTRACTS:
    if 'C03' in getattr(_c, 'props', ()):
        globals()[_c.__name__] = _c
        CONTRACTS.append(_c)


# =========================================================================================== legacy type:value tuples
import fim.graph.typed_tuples as _tt
from pyvc.values import is_sym as _is_sym, mk as _mk
import z3 as _z3


def _real_types():
    out = {}
    for cls in (_tt.Label, _tt.Capacity, _tt.Location, _tt.AllocationConstraint):
        probe = object.__new__(cls)
        cls.__init__.__wrapped__ if False else None
    for cat, f in (('label', 'label_types.json'), ('cap', 'capacity_types.json'), ('location', 'location_types.json'),
                   ('constraint', 'constraint_types.json')):
        out[cat] = _tt.TypeValidator(cat, f).get_types(cat)
    return out


TUPLE_TYPES = _real_types()


def _tv_init(I, args, kw):
    """TypeValidator(cat, file): loads the packaged type list (the real lists are read natively, see TUPLE_TYPES)"""
    return None


def _tv_validate(I, args, kw):
    _self, cat, atype = args
    types = TUPLE_TYPES[cat]
    if atype is None:
        I.raise_(AssertionError)
    if isinstance(atype, str):
        return atype in types
    if _is_sym(atype) and atype.k == 'str':
        return _mk(_z3.Or(*[atype.t == _z3.StringVal(t) for t in types]), 'bool')
    I.raise_(TypeError, 'unhashable / not a string')


def _tv_types(I, args, kw):
    if len(args) < 2:
        I.raise_(TypeError, "get_types() missing 1 required positional argument: 'cat'")
    return PList(list(TUPLE_TYPES[args[1]]))


TUPLE_SUMMARIES = {'fim.graph.typed_tuples:TypeValidator.__init__': _tv_init,
                   'fim.graph.typed_tuples:TypeValidator.validate_type': _tv_validate,
                   'fim.graph.typed_tuples:TypeValidator.get_types': _tv_types}


def make_tuple_contracts(cls, cat):
    class TupleRoundTrip(Contract):
        """type:value text -> value -> text, through parse_from_string and through the fromstring constructor"""
        target = 'fim.graph.typed_tuples:TypedTuple.get_as_string'
        extra_targets = ('fim.graph.typed_tuples:TypedTuple.__init__', 'fim.graph.typed_tuples:TypedTuple.parse_from_string',
                         f'fim.graph.typed_tuples:{cls.__name__}.__init__')
        props = ('C03',)
        summaries = TUPLE_SUMMARIES
        max_paths = 4000

        def inputs(self, g):
            return [g.pick(TUPLE_TYPES[cat], 'type'), g.text('v')], {}

        def body(self, h, atype, aval):
            x = h.call(cls, atype=atype, aval=aval)
            enc = h.call(cls.get_as_string, x)
            y = h.call(cls, fromstring=enc)
            z = h.call(cls, atype=TUPLE_TYPES[cat][0], aval='')
            h.call(cls.parse_from_string, z, enc)
            return (enc, fld(y, 'type'), fld(y, 'val'), h.call(cls.get_as_string, y), fld(z, 'type'), fld(z, 'val'),
                    fld(x, 'type'), fld(x, 'val'))

        ensures = {
            'rt1.parse_from_string_gives_the_value_back': lambda pre, post: returned(post) and And(
                eq(post.result[4], pre.args[0]), same(post.result[5], pre.args[1])),
            'rt1.fromstring_constructor_gives_the_value_back': lambda pre, post: returned(post) and And(
                eq(post.result[1], pre.args[0]), same(post.result[2], pre.args[1])),
            'rt2.reencoding_the_decoded_value_gives_the_identical_text': lambda pre, post: returned(post) and same(
                post.result[3], post.result[0]),
            'enc.leaves_the_value_untouched': lambda pre, post: returned(post) and And(
                eq(post.result[6], pre.args[0]), same(post.result[7], pre.args[1])),
        }
    TupleRoundTrip.__name__ = f'TupleRoundTrip_{cls.__name__}'

    class TupleUnknownType(Contract):
        """a type outside the packaged list is refused by the constructor and by parse_from_string (which leaves the value)"""
        target = 'fim.graph.typed_tuples:TypedTuple.__init__'
        extra_targets = ('fim.graph.typed_tuples:TypedTuple.parse_from_string',)
        props = ('C03',)
        summaries = TUPLE_SUMMARIES
        max_paths = 4000

        def inputs(self, g):
            t = g.text('t')
            g.assume(_z3.Not(_z3.Contains(t.t, _z3.StringVal(':'))))
            g.assume(_z3.And(*[t.t != _z3.StringVal(x) for x in TUPLE_TYPES[cat]]))
            return [t, g.text('v')], {}

        def body(self, h, atype, aval):
            st, _ = h.attempt(cls, atype=atype, aval=aval)
            z = h.call(cls, atype=TUPLE_TYPES[cat][0], aval='keep')
            st2, _ = h.attempt(cls.parse_from_string, z, h.op('Add', h.op('Add', atype, ':'), aval))
            return (st, st2, fld(z, 'type'), fld(z, 'val'))

        ensures = {
            'type.unknown_type_refused_value_kept': lambda pre, post: returned(post) and post.result[0] == 'exc'
            and post.result[1] == 'exc' and eq(post.result[2], TUPLE_TYPES[cat][0]) and eq(post.result[3], 'keep'),
        }
    TupleUnknownType.__name__ = f'TupleUnknownType_{cls.__name__}'
    return [TupleRoundTrip, TupleUnknownType]


for _cls, _cat in ((_tt.Label, 'label'), (_tt.Capacity, 'cap'), (_tt.Location, 'location'), (_tt.AllocationConstraint, 'constraint')):
    for _c in make_tuple_contracts(_cls, _cat):
        globals()[_c.__name__] = _c
        CONTRACTS.append(_c)


class TupleIntValue_Capacity(Contract):
    """capacity tuples are built with integer values (the module's own documentation); the text form gives a string back"""
    target = 'fim.graph.typed_tuples:TypedTuple.get_as_string'
    extra_targets = ('fim.graph.typed_tuples:TypedTuple.__init__',)
    props = ('C03',)
    summaries = TUPLE_SUMMARIES

    def inputs(self, g):
        return [g.pick(TUPLE_TYPES['cap'], 'type'), g.int('n', lo=0)], {}

    def body(self, h, atype, n):
        x = h.call(_tt.Capacity, atype=atype, aval=n)
        enc = h.call(_tt.Capacity.get_as_string, x)
        y = h.call(_tt.Capacity, fromstring=enc)
        return (enc, fld(y, 'type'), fld(y, 'val'), h.call(_tt.Capacity.get_as_string, y))

    ensures = {
        'rt1.integer_value_comes_back_equal': lambda pre, post: returned(post) and And(
            eq(post.result[1], pre.args[0]), same(post.result[2], pre.args[1])),
        'rt1.integer_value_comes_back_equal_or_known_defect_KF-C03-1': lambda pre, post: returned(post) and And(
            eq(post.result[1], pre.args[0]), Or(same(post.result[2], pre.args[1]), same(post.result[2], str_of_int(pre.args[1])))),
        'rt2.reencoding_the_decoded_value_gives_the_identical_text': lambda pre, post: returned(post) and same(
            post.result[3], post.result[0]),
    }


CONTRACTS.append(TupleIntValue_Capacity)


# =========================================================================================== Labels: forward compatibility
class LabelsForward(Contract):
    """decoding a label text that carries known fields plus an unknown key (sorting before, between or after them): the unknown
    key is tolerated and every known field keeps its value (checked values are still checked: C16)"""
    target = 'fim.slivers.capacities_labels:Labels.from_json'
    extra_targets = ('fim.slivers.capacities_labels:Labels._set_fields',)
    props = ('C03',)
    FREE = ['instance', 'local_name', 'device_name']       # fields without a validator: every string is in the domain

    def inputs(self, g):
        d = PDict()
        for f in self.FREE:
            if g.choice(2, f'{f} present?') == 0:
                d.e[f] = [True, g.str(f'j.{f}')]
        if g.choice(2, 'a checked field present?') == 0:
            d.e['vlan'] = [True, g.pick(['100', '4095'], 'a valid vlan')]
        key = g.pick(['aa_future_field', 'kk_future_field', 'zz_future_field', 'to_json'], 'where the unknown key sorts / its name')
        d.e[key] = [True, g.U('j.future', allowed=('bool', 'int', 'real', 'str'))]
        return [JsonText(d, True)], {}

    def body(self, h, s):
        return h.call(Labels.from_json, s)

    @staticmethod
    def _sent(pre):
        import json
        s = pre.args[0]
        return s.value if isinstance(s, JsonText) else json.loads(s)

    ensures = {
        'fwd.tolerates_unknown': lambda pre, post: And(returned(post), isinst(post.result, Labels)),
        'fwd.keeps_known': lambda pre, post: returned(post) and And(isinst(post.result, Labels), forall(
            LabelsForward.FREE + ['vlan'], lambda f: (same(fld(post.result, f), fld(LabelsForward._sent(pre), f))
                                                      if has(LabelsForward._sent(pre), f) else fld(post.result, f) is None))),
    }


CONTRACTS.append(LabelsForward)
