"""
C16 -- Label, tag, name and data validation holds on every construction path.

The *documented domain* of a field is its published pattern (pinned below and compared with the real table on every run)
matched against the WHOLE string with CPython regex semantics, plus the published numeric range.  Per field and per entry
point (setter, constructor, copy-with-changes, decoding from text; scalar and list form) the obligations are
  accept => in domain,   in domain => accept,   stored == given,   rejected => nothing changed,   accepted => re-encodes.
Scalar forms are proved for all strings; list forms are checked for lists of length 0..2 (bounded stand-in).
"""
import re

from pyvc.harness import Contract
from pyvc.spec import (And, Or, Not, Implies, Iff, forall, exists, eq, same, fld, has, keys, items, is_list, returned, raised,
                       fields_same, same_obj, isinst, is_none, Ite, length, is_true, is_false, is_bool, is_obj, fullmatch,
                       int_ok, int_val, before, after, is_str, as_str, json_valid)
from pyvc.values import PList, PGenList, PDict, JsonText, is_sym
from fim.slivers.capacities_labels import Labels, Capacities, JSONField, LabelException
from fim.slivers.tags import Tags
from fim.slivers.json_data import UserData, MeasurementData, LayoutData
from fim.slivers.network_node import NodeSliver
from fim.slivers.attached_components import ComponentSliver
from fim.slivers.network_service import NetworkServiceSliver
from fim.slivers.interface_info import InterfaceSliver
from fim.slivers.network_link import NetworkLinkSliver
from fim.slivers.base_sliver import BaseSliver

T = 'fim.slivers.capacities_labels:'

# ---- the published tables, pinned (a silent edit of the real tables fails `table.pinned`)
PINNED_PATTERNS = {
    'bdf': '[0-9a-fA-F]{1,4}:[0-9a-fA-F]{2}:[0-9a-fA-F]{2}.[0-9a-fA-F]+',
    'mac': '([0-9a-fA-F]{2}:){5}[0-9a-fA-F]{2}',
    'ipv4': r'(?:(?:25[0-5]|2[0-4][0-9]|[01]?[0-9][0-9]?)\.){3}(?:25[0-5]|2[0-4][0-9]|[01]?[0-9][0-9]?)',
    'ipv4_range': r'(?:(?:25[0-5]|2[0-4][0-9]|[01]?[0-9][0-9]?)\.){3}(?:25[0-5]|2[0-4][0-9]|[01]?[0-9][0-9]?)-'
                  r'(?:(?:25[0-5]|2[0-4][0-9]|[01]?[0-9][0-9]?)\.){3}(?:25[0-5]|2[0-4][0-9]|[01]?[0-9][0-9]?)',
    'ipv4_subnet': r'(?:(?:25[0-5]|2[0-4][0-9]|[01]?[0-9][0-9]?)\.){3}(?:25[0-5]|2[0-4][0-9]|[01]?[0-9][0-9]?)/[\d]{1,2}',
    'ipv6': r'(?:[a-fA-F0-9]{0,4}:){0,7}[a-fA-F0-9]{0,4}',
    'ipv6_range': r'(?:[a-fA-F0-9]{0,4}:){0,7}[a-fA-F0-9]{0,4}-(?:[a-fA-F0-9]{0,4}:){0,7}[a-fA-F0-9]{0,4}',
    'ipv6_subnet': r'(?:[a-fA-F0-9]{0,4}:){0,7}[a-fA-F0-9]{0,4}/[\d]{1,2}',
    'asn': r'[\d]+',
    'vlan': r'[\d]{1,4}',
    'vlan_range': r'[\d]{1,4}-[\d]{1,4}',
    'inner_vlan': r'[\d]{1,4}',
    'bgp_key': r'[\w\-+_/\.:]{6,150}',
    'account_id': r'[\w\-/\.]{3,100}',
    'region': r'[\w\-\.]{3,100}',
    'usb_id': r'[0-9a-f]{4}:[0-9a-f]{4}',
    # documented as "-1 or 0-7"
    'numa': r'-1|[0-7]',
}
PINNED_RANGES = {'vlan': "0-4096", 'inner_vlan': "0-4096", 'vlan_range': "0-4096", 'asn': "1-4294967295", 'numa': "-1 or 0-7"}
RANGE = {'vlan': (0, 4096), 'inner_vlan': (0, 4096), 'asn': (1, 4294967295), 'numa': (-1, 7)}
LABEL_FIELDS = list(Labels().__dict__.keys())
PINNED_NAME_REGEX = {
    'NodeSliver': r'^[\w\-\.]{2,255}$', 'ComponentSliver': r'^[\w\-_\.\ ]{2,255}$',
    'NetworkServiceSliver': r'^[\w\-_\.]{2,255}$', 'InterfaceSliver': r'^[\w\-+_/\.\ :]{1,255}$',
    'NetworkLinkSliver': r'^[\w\-+_/\.\ :]{2,255}$',
}
PINNED_TAG = r'[\w-]{1,255}'
PINNED_SIZES = {'UserData': 2048, 'MeasurementData': 4096, 'LayoutData': 1024, 'BOOT_SCRIPT': 1024}


def in_domain(k, v):
    """documented domain of label field k for a string v"""
    if k not in PINNED_PATTERNS:
        return True                       # free-text fields (instance, local_name, device_name ...)
    ok = fullmatch(PINNED_PATTERNS[k], v)
    if k in RANGE:
        lo, hi = RANGE[k]
        ok = And(ok, int_ok(v), lo <= int_val(v), int_val(v) <= hi)
    if k == 'vlan_range':
        a, b = before(v, '-'), after(v, '-')
        ok = And(ok, int_ok(a), int_ok(b), 0 <= int_val(a), int_val(a) <= 4096, 0 <= int_val(b), int_val(b) <= 4096,
                 int_val(a) <= int_val(b))
    return ok


def value_in_domain(k, v):
    """scalar string or list of strings"""
    if is_list(v):
        return forall(items(v), lambda e: And(is_str(e), in_domain(k, e)))
    return And(is_str(v), in_domain(k, as_str(v)))


def gen_value(g, form, name='v'):
    if form == 'str':
        return g.text(name)
    if form == 'list0':
        return PList([])
    if form == 'list1':
        return PList([g.text(name + '0')])
    if form == 'list2':
        return PList([g.text(name + '0'), g.text(name + '1')])
    if form == 'listN':
        return g.genlist(name)           # ANY length, no bound: decided with the loop rule (pyvc.interp.gen_loop)
    raise ValueError(form)


class TablePinned(Contract):
    """the real validator tables are the published ones"""
    target = T + 'Labels._set_fields'
    props = ('C16',)

    @classmethod
    def run_custom(cls, tier, seed):
        from pyvc import loader
        info = loader.func_info(Labels._set_fields)
        diffs = []
        real = {k: v[0] for k, v in Labels.VALIDATORS.items()}
        for k, p in PINNED_PATTERNS.items():
            if real.get(k) != p:
                diffs.append(f'pattern[{k}]: real {real.get(k)!r} != published {p!r}')
        for k in real:
            if k not in PINNED_PATTERNS:
                diffs.append(f'pattern[{k}]: not in the published table')
        for k, d in PINNED_RANGES.items():
            r = Labels.LAMBDA_VALIDATORS.get(k)
            if r is None or r[1] != d:
                diffs.append(f'range[{k}]: real {r[1] if r else None!r} != published {d!r}')
        for c in (NodeSliver, ComponentSliver, NetworkServiceSliver, InterfaceSliver, NetworkLinkSliver):
            if c.NAME_REGEX != PINNED_NAME_REGEX[c.__name__]:
                diffs.append(f'NAME_REGEX[{c.__name__}]: real {c.NAME_REGEX!r} != published')
        if Tags.TAG_PATTERN.strip('^$') != PINNED_TAG:
            diffs.append(f'TAG_PATTERN: real {Tags.TAG_PATTERN!r}')
        for c in (UserData, MeasurementData, LayoutData):
            if c.MAX_SIZE != PINNED_SIZES[c.__name__]:
                diffs.append(f'MAX_SIZE[{c.__name__}] = {c.MAX_SIZE}')
        if BaseSliver.BOOST_SCRIPT_SIZE != PINNED_SIZES['BOOT_SCRIPT']:
            diffs.append(f'BOOST_SCRIPT_SIZE = {BaseSliver.BOOST_SCRIPT_SIZE}')
        st = dict(status='discharged' if not diffs else 'violated', paths=1, solver_s=0.0, backend='python ==',
                  witness=dict(differences=diffs) if diffs else None, confirmed=bool(diffs), reason='; '.join(diffs))
        return dict(contract=cls.__name__, target=cls.target, clauses={'table.pinned': st}, paths=1, feasible_paths=1,
                    unsupported=[], faults=[], crosscheck=dict(compared=0, mismatches=[]),
                    functions={info['qualname']: dict(file=info['file'], first=info['first'], last=info['last'], sha=info['sha'])},
                    trusted=[], solver_calls=0, solver_s=0)


def label_clauses(get_obj, get_kv):
    """clauses shared by every entry point of Labels. get_obj(post) -> resulting Labels object (or None);
    get_kv(pre) -> (field, given value)"""
    def accept_in(pre, post):
        k, v = get_kv(pre)
        return Implies(returned(post), value_in_domain(k, v))

    def in_accept(pre, post):
        k, v = get_kv(pre)
        return Implies(value_in_domain(k, v), returned(post))

    def stored(pre, post):
        k, v = get_kv(pre)
        if not returned(post):
            return True
        o = get_obj(post)
        return And(is_obj(o), same(fld(o, k), v) if not is_list(v) else And(is_list(fld(o, k)), eq(fld(o, k), v)),
                   forall([f for f in LABEL_FIELDS if f != k], lambda f: fld(o, f) is None))
    return {'accept=>in_domain': accept_in, 'in_domain=>accept': in_accept, 'stored==given': stored}


class Rejected(Exception):
    """stands for whichever exception class the real validator raises on rejection (LabelException, AssertionError,
    ValueError from int() ...) -- the statement only says the value is not stored"""
    _pyvc_any_exception = True


def labels_set_fields_summary(I, args, kwargs):
    """CONTRACT of Labels._set_fields as established by the LabelsSetFields_* / LabelsNonString / LabelsUnknownField
    obligations: per keyword, in order -- accept iff the value is in the documented domain, store exactly the given value,
    otherwise raise and leave the object as it was before that keyword; unknown field: skipped if forgiving else raises."""
    from pyvc.values import kind_of
    self = args[0]
    kwargs = dict(kwargs)
    forgiving = args[1] if len(args) > 1 else kwargs.pop('forgiving', False)
    for k, v in kwargs.items():
        if k not in LABEL_FIELDS:
            # an unknown key is skipped (forgiving) or refused whatever its value is: the value of a field this version does
            # not know is not this version's business (C03: decoding tolerates unknown fields)
            if forgiving is True:
                continue
            if forgiving is False:
                I.raise_(LabelException, 'no such field')
            raise NotImplementedError('symbolic forgiving flag')
        if not (is_list(v) or kind_of(v) in ('str', 'U')):
            I.raise_(Rejected)
        if isinstance(v, PGenList):
            if not I.branch_all(v, lambda e: And(is_str(e), in_domain(k, e))):
                I.raise_(Rejected)
        elif not I.ctx.branch(value_in_domain(k, v)):
            I.raise_(Rejected)
        I.dict_set(self.d, k, v)
    return self


LABELS_SET_FIELDS = {T + 'Labels._set_fields': labels_set_fields_summary}


def make_label_contracts():
    out = []
    for field in LABEL_FIELDS:
        forms = ['str', 'listN', 'list1'] + (['list2'] if field in ('mac', 'vlan') else []) + (['list0'] if field == 'bdf' else [])
        for form in forms:
            out.append(_set_fields_contract(form, field))
    out += _entry_point_contracts()
    return out


def _bound_text(form):
    return None if form in ('str', 'listN') else 'list-valued label of length %s (list forms are checked for lengths 0..2)' % form[-1]


def _set_fields_contract(form, field):
    class SetFields(Contract):
        target = T + 'Labels._set_fields'
        props = ('C16',)
        _form = form
        _field = field
        cost = 50 if field == 'vlan_range' else 5 if field in RANGE else 1
        bounded = _bound_text(form)

        def inputs(self, g):
            x = g.obj(Labels, **{f: None for f in LABEL_FIELDS})
            v = gen_value(g, self._form)
            forgiving = g.pick([False, True], 'forgiving')
            return [x, forgiving], {self._field: v}

        def body(self, h, x, forgiving, **kw):
            return h.call(Labels._set_fields, x, forgiving, **kw)

        ensures = dict(label_clauses(lambda post: post.args[0], lambda pre: next(iter(pre.kwargs.items()))))
        ensures['rejected=>unchanged'] = lambda pre, post: Implies(Not(returned(post)), fields_same(pre.args[0], post.args[0]))
    SetFields.__name__ = f'LabelsSetFields_{field}_{form}'
    return SetFields


def _entry_point_contracts():
    """constructor, copy-with-changes, decoding from text, encode/decode again: verified MODULARLY against the contract of
    Labels._set_fields (its body is not re-executed here), for every field and every form at once"""
    out = []
    FORMS = ['str', 'listN', 'list0', 'list1', 'list2']

    def pick_kv(g):
        k = g.pick(LABEL_FIELDS, 'field')
        form = g.pick(FORMS, 'form')
        return k, gen_value(g, form)

    class Ctor(Contract):
        target = T + 'Labels.__init__'
        props = ('C16',)
        summaries = LABELS_SET_FIELDS
        bounded_note = 'list forms: lengths 0..2'

        def inputs(self, g):
            k, v = pick_kv(g)
            return [], {k: v}

        def body(self, h, **kw):
            return h.call(Labels, **kw)

        ensures = label_clauses(lambda post: post.result, lambda pre: next(iter(pre.kwargs.items())))
    Ctor.__name__ = 'LabelsCtor'

    class Update(Contract):
        """copy-with-changes"""
        target = T + 'JSONField.update'
        props = ('C16',)
        summaries = LABELS_SET_FIELDS

        def inputs(self, g):
            x = g.obj(Labels, **{f: None for f in LABEL_FIELDS})
            k, v = pick_kv(g)
            return [x], {k: v}

        def body(self, h, x, **kw):
            return h.call(Labels.update, x, **kw)

        ensures = dict(label_clauses(lambda post: post.result, lambda pre: next(iter(pre.kwargs.items()))))
        ensures['original_untouched'] = lambda pre, post: fields_same(pre.args[0], post.args[0])
    Update.__name__ = 'LabelsUpdate'

    class FromJson(Contract):
        """decoding from text (forgiving path)"""
        target = T + 'JSONField.from_json'
        props = ('C16',)
        summaries = LABELS_SET_FIELDS

        def inputs(self, g):
            k, v = pick_kv(g)
            d = PDict()
            d.e[k] = [True, v]
            return [JsonText(d, True)], {}

        def body(self, h, s):
            return h.call(Labels.from_json, s)

        @staticmethod
        def _kv(pre):
            import json
            s = pre.args[0]
            d = s.value if isinstance(s, JsonText) else json.loads(s)
            k = keys(d)[0]
            return k, fld(d, k)

        ensures = label_clauses(lambda post: post.result, lambda pre: FromJson._kv(pre))
    FromJson.__name__ = 'LabelsFromJson'

    class Reencode(Contract):
        """whatever was accepted can be encoded and decoded again without being rejected, and comes back equal"""
        target = T + 'Labels.__init__'
        extra_targets = (T + 'JSONField.to_json', T + 'JSONField.from_json')
        props = ('C16', 'C03')
        summaries = LABELS_SET_FIELDS

        def inputs(self, g):
            k, v = pick_kv(g)
            return [], {k: v}

        def body(self, h, **kw):
            st, x = h.attempt(Labels, **kw)
            if st == 'exc':
                return 'rejected'
            s = h.call(Labels.to_json, x)
            y = h.call(Labels.from_json, s)
            s2 = None if y is None else h.call(Labels.to_json, y)
            return (x, s, y, s2)

        @staticmethod
        def _rt(pre, post):
            if not returned(post):
                return False
            if isinstance(post.result, str):
                return True
            x, s, y, s2 = post.result
            k, v = next(iter(pre.kwargs.items()))
            if y is None:
                return False
            return And(forall(LABEL_FIELDS, lambda f: eq(fld(y, f), fld(x, f))), eq(s2, s),
                       (same(fld(y, k), v) if not is_list(v) else eq(fld(y, k), v)))

        ensures = {'accepted=>reencodes_equal': lambda pre, post: Reencode._rt(pre, post)}
    Reencode.__name__ = 'LabelsReencode'

    class TwoKeywords(Contract):
        """sequential composition: keywords are processed one after the other, each as in the single-keyword contract"""
        target = T + 'Labels._set_fields'
        props = ('C16',)
        bounded = 'two keywords drawn from {mac, vlan, local_name, numa}; scalar values'

        def inputs(self, g):
            x = g.obj(Labels, **{f: None for f in LABEL_FIELDS})
            k1 = g.pick(['mac', 'vlan', 'local_name'], 'k1')
            k2 = g.pick([k for k in ['vlan', 'numa', 'local_name', 'mac'] if k != k1], 'k2')
            return [x], {k1: g.text('v1'), k2: g.text('v2')}

        def body(self, h, x, **kw):
            return h.call(Labels._set_fields, x, **kw)

        @staticmethod
        def _c(pre, post):
            (k1, v1), (k2, v2) = list(pre.kwargs.items())
            o = post.args[0]
            return And(Iff(returned(post), And(in_domain(k1, v1), in_domain(k2, v2))),
                       Implies(And(in_domain(k1, v1), in_domain(k2, v2)), And(same(fld(o, k1), v1), same(fld(o, k2), v2))),
                       Implies(Not(in_domain(k1, v1)), fields_same(pre.args[0], o)),
                       forall([f for f in LABEL_FIELDS if f not in (k1, k2)], lambda f: fld(o, f) is None))

        ensures = {'sequential_composition': lambda pre, post: TwoKeywords._c(pre, post)}
    out += [Ctor, Update, FromJson, Reencode, TwoKeywords]
    return out


class LabelsDecodeWithUnknownKey(Contract):
    """the forgiving decode path with an unknown key next to a checked field: the unknown key (wherever it sorts) is skipped,
    and the checked field is still accepted exactly when its value is in the documented domain -- on the REAL _set_fields body"""
    target = T + 'Labels._set_fields'
    extra_targets = (T + 'JSONField.from_json',)
    props = ('C16',)
    cost = 10

    def inputs(self, g):
        d = PDict()
        d.e[g.pick(['aa_future_field', 'zz_future_field'], 'where the unknown key sorts')] = [True, g.text('u')]
        d.e['vlan'] = [True, g.text('v')]
        return [JsonText(d, True)], {}

    def body(self, h, s):
        return h.call(Labels.from_json, s)

    @staticmethod
    def _v(pre):
        import json
        s = pre.args[0]
        d = s.value if isinstance(s, JsonText) else json.loads(s)
        return fld(d, 'vlan')

    ensures = {
        'accept<=>in_domain': lambda pre, post: Iff(returned(post), value_in_domain('vlan', LabelsDecodeWithUnknownKey._v(pre))),
        'stored==given': lambda pre, post: Implies(returned(post), And(is_obj(post.result), same(
            fld(post.result, 'vlan'), LabelsDecodeWithUnknownKey._v(pre)))) if returned(post) else True,
    }


class LabelsNonString(Contract):
    """a value that is neither a string nor a list is never stored"""
    target = T + 'Labels._set_fields'
    props = ('C16',)

    def inputs(self, g):
        x = g.obj(Labels, **{f: None for f in LABEL_FIELDS})
        k = g.pick(LABEL_FIELDS, 'field')
        v = g.U('v', ('none', 'bool', 'int', 'real'))
        return [x, g.pick([False, True])], {k: v}

    def body(self, h, x, forgiving, **kw):
        return h.call(Labels._set_fields, x, forgiving, **kw)

    ensures = {
        'nonstring_rejected': lambda pre, post: Not(returned(post)),
        'rejected=>unchanged': lambda pre, post: fields_same(pre.args[0], post.args[0]),
    }


class LabelsUnknownField(Contract):
    target = T + 'Labels._set_fields'
    props = ('C16',)

    def inputs(self, g):
        x = g.obj(Labels, **{f: None for f in LABEL_FIELDS})
        return [x, g.pick([False, True])], {'no_such_field': g.text('v')}

    def body(self, h, x, forgiving, **kw):
        return h.call(Labels._set_fields, x, forgiving, **kw)

    ensures = {
        'unknown_field_never_stored': lambda pre, post: And(fields_same(pre.args[0], post.args[0]),
                                                            keys(post.args[0]) == LABEL_FIELDS),
        'unknown_field_rejected_unless_forgiving': lambda pre, post: Iff(returned(post), pre.args[1] is True),
    }


CAP_FIELDS = list(Capacities().__dict__.keys())


class CapacitiesSetFields(Contract):
    """only non-negative integers (or None = leave) can be stored in a capacity field"""
    target = T + 'Capacities._set_fields'
    props = ('C16',)

    def inputs(self, g):
        x = g.obj(Capacities, **{f: g.int(f'x.{f}', lo=0) for f in CAP_FIELDS})
        k = g.pick(CAP_FIELDS, 'field')
        v = g.U('v', ('none', 'bool', 'int', 'real', 'str'))
        return [x, g.pick([False, True])], {k: v}

    def body(self, h, x, forgiving, **kw):
        return h.call(Capacities._set_fields, x, forgiving, **kw)

    @staticmethod
    def _dom(v):
        from pyvc.values import V, mk
        import z3
        if is_sym(v):
            u = v.t
            return mk(z3.Or(V.is_none(u), z3.And(V.is_i(u), V.iv(u) >= 0), V.is_b(u)), 'bool')
        return v is None or (isinstance(v, int) and v >= 0)

    ensures = {
        'accept<=>in_domain': lambda pre, post: Iff(returned(post), CapacitiesSetFields._dom(next(iter(pre.kwargs.values())))),
        'stored==given': lambda pre, post: Implies(returned(post), And(
            same(fld(post.args[0], next(iter(pre.kwargs))), next(iter(pre.kwargs.values()))),
            fields_same(pre.args[0], post.args[0], [f for f in CAP_FIELDS if f != next(iter(pre.kwargs))]))),
        'rejected=>unchanged': lambda pre, post: Implies(Not(returned(post)), fields_same(pre.args[0], post.args[0])),
    }


def tag_ok(t):
    return And(is_str(t), fullmatch(PINNED_TAG, as_str(t)))


def make_tag_contracts():
    out = []

    class TagCheck(Contract):
        target = 'fim.slivers.tags:Tags._check'
        props = ('C16',)

        def inputs(self, g):
            form = g.choice(2, 'string or other')
            return [g.text('t') if form == 0 else g.U('t', ('none', 'bool', 'int', 'real'))], {}

        def body(self, h, t):
            return h.call(Tags._check, t)

        ensures = {'accept<=>in_domain': lambda pre, post: Iff(returned(post), tag_ok(pre.args[0]))}
    out.append(TagCheck)
    for n in (0, 1, 2, 'N'):
        for entry in ('ctor_varargs', 'ctor_list', 'from_json'):
            if n == 'N' and entry == 'ctor_varargs':
                continue          # an argument tuple of unknown length is outside the loop rule (lists only)

            class TagsEntry(Contract):
                target = 'fim.slivers.tags:Tags.__init__'
                extra_targets = ('fim.slivers.tags:Tags._check', 'fim.slivers.tags:Tags.from_json', 'fim.slivers.tags:Tags.to_json')
                props = ('C16', 'C03')
                _n = n
                _entry = entry
                bounded = None if n == 'N' else f'tag list of length {n} (lists are checked up to length 2)'

                def inputs(self, g):
                    if self._n == 'N':
                        return [g.genlist('t')], {}       # ANY length: loop rule with a copy statement (pyvc.interp.gen_loop)
                    tags = [g.text(f't{i}') for i in range(self._n)]
                    return [PList(tags)], {}

                def body(self, h, tags):
                    e = self._entry
                    import json as _json
                    if e == 'ctor_varargs':
                        x = h.call(Tags, *items(tags))
                    elif e == 'ctor_list':
                        x = h.call(Tags, tags)
                    else:
                        x = h.call(Tags.from_json, JsonText(tags, False) if h.mode == 'sym' else _json.dumps(tags))
                    if x is None:
                        return None
                    s = h.call(Tags.to_json, x)
                    y = h.call(Tags.from_json, s)
                    return (x, s, y)

                ensures = {
                    'accept<=>in_domain': lambda pre, post: Iff(returned(post), forall(items(pre.args[0]), tag_ok)),
                    'stored==given+reencodes': lambda pre, post: True if not returned(post) else And(
                        post.result is not None, eq(fld(post.result[0], 'tags'), pre.args[0]),
                        post.result[2] is not None and eq(fld(post.result[2], 'tags'), pre.args[0])),
                }
            TagsEntry.__name__ = f'Tags_{entry}_{n}'
            out.append(TagsEntry)
    return out


def make_jsondata_contracts():
    out = []
    for cls in (UserData, MeasurementData, LayoutData):
        class JD(Contract):
            """opaque JSON blob given as text: stored iff valid JSON and within the size limit; re-decodes"""
            target = 'fim.slivers.json_data:JSONData.__init__'
            extra_targets = (f'fim.slivers.json_data:{cls.__name__}.__init__',)
            props = ('C16', 'C03')
            _cls = cls
            hard_timeout_s = 8      # z3 is slow (and sometimes deaf to its timeout) when it must build >1000-character strings

            def inputs(self, g):
                return [g.str('data')], {}

            def body(self, h, data):
                x = h.call(self._cls, data)
                y = h.call(self._cls, h.getattr(x, 'json'))
                return (x, y)

            ensures = {
                'accept<=>in_domain': lambda pre, post, c=cls: Iff(returned(post), And(
                    length(pre.args[0]) <= PINNED_SIZES[c.__name__], json_valid(pre.args[0]))),
                'stored==given+reencodes': lambda pre, post: True if not returned(post) else And(
                    same(fld(post.result[0], '_data'), pre.args[0]), same(fld(post.result[1], '_data'), pre.args[0])),
            }
        JD.__name__ = f'{cls.__name__}_text'
        out.append(JD)

        class JDNone(Contract):
            target = 'fim.slivers.json_data:JSONData.__init__'
            props = ('C16', 'C03')
            _cls = cls

            def inputs(self, g):
                return [None], {}

            def body(self, h, data):
                x = h.call(self._cls, data)
                return (x, h.call(self._cls, h.getattr(x, 'json')))

            ensures = {'none_is_empty_object': lambda pre, post: False if not returned(post) else And(
                same(fld(post.result[0], '_data'), '{}'), same(fld(post.result[1], '_data'), '{}'))}
        JDNone.__name__ = f'{cls.__name__}_none'
        out.append(JDNone)
    return out


def make_name_contracts():
    out = []
    for cls in (NodeSliver, ComponentSliver, NetworkServiceSliver, InterfaceSliver, NetworkLinkSliver):
        class SetName(Contract):
            target = 'fim.slivers.base_sliver:BaseSliver.set_name'
            props = ('C16',)
            _cls = cls

            def inputs(self, g):
                x = g.obj(self._cls, resource_name=None)
                return [x, g.text('name')], {}

            def body(self, h, x, name):
                return h.call(BaseSliver.set_name, x, name)

            ensures = {
                'accept<=>in_domain': lambda pre, post, c=cls: Iff(returned(post), fullmatch(
                    PINNED_NAME_REGEX[c.__name__].strip('^$'), pre.args[1])),
                'stored==given': lambda pre, post: Implies(returned(post), same(fld(post.args[0], 'resource_name'), pre.args[1])),
                'rejected=>unchanged': lambda pre, post: Implies(Not(returned(post)), fld(post.args[0], 'resource_name') is None),
            }
        SetName.__name__ = f'SetName_{cls.__name__}'
        out.append(SetName)
    return out


class SetBootScript(Contract):
    target = 'fim.slivers.base_sliver:BaseSliver.set_boot_script'
    props = ('C16',)

    def inputs(self, g):
        x = g.obj(NodeSliver, boot_script=None)
        return [x, g.str('script')], {}

    def body(self, h, x, s):
        return h.call(BaseSliver.set_boot_script, x, s)

    ensures = {
        'accept<=>within_size': lambda pre, post: Iff(returned(post), length(pre.args[1]) < PINNED_SIZES['BOOT_SCRIPT']),
        'stored==given': lambda pre, post: Implies(returned(post), same(fld(post.args[0], 'boot_script'), pre.args[1])),
        'rejected=>unchanged': lambda pre, post: Implies(Not(returned(post)), fld(post.args[0], 'boot_script') is None),
    }


CONTRACTS = [TablePinned] + make_label_contracts() + [LabelsDecodeWithUnknownKey, LabelsNonString, LabelsUnknownField, CapacitiesSetFields] + \
    make_tag_contracts() + make_jsondata_contracts() + make_name_contracts() + [SetBootScript]
for _c in CONTRACTS:
    globals()[_c.__name__] = _c
