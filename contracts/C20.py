"""
C20 -- Store lock discipline and identifier allocation under concurrent use.

(a) lock balance, for ALL behaviours of the guarded calls: every method of both store classes is executed on the real AST
    with the lock modelled by ghost state (held / acquires / releases) and with every library call made inside the method
    (networkx, networkx_query, list(), len(), the logger, the private helper ...) replaced by an unknown value that may ALSO
    raise an arbitrary exception (fault sequences).  Obligation on every path -- normal return, early return, every
    exceptional exit: the lock is not held at exit, acquires == releases, no release of an unlocked lock, no second acquire.
(b) identifier allocation / lock invariant: sequential postconditions of add_blank_node_to_graph / add_graph under the lock
    (ids fresh and distinct, counter ahead of every id in use, exactly the incoming nodes added) -- on the bounded graph model
    (graphs of <= 3 nodes, all attribute values), see contracts/graphmodel.py.  Mutual exclusion of threading.Lock is trusted;
    with it, critical sections are serialisable and the concurrent half of the statement follows from (a) + (b).
"""
import threading

import z3

from pyvc.harness import Contract
from pyvc.spec import And, Or, Not, Implies, Iff, returned, raised
from pyvc.values import PObj, PDict, AnyVal, LockVal, Foreign
from fim.graph.networkx_property_graph import NetworkXGraphStorage
from fim.graph.networkx_property_graph_disjoint import NetworkXGraphStorageDisjoint

SHARED = NetworkXGraphStorage._NetworkXGraphStorage__NetworkXGraphStorage
DISJOINT = NetworkXGraphStorageDisjoint._NetworkXGraphStorageDisjoint__NetworkXGraphStorage
TS = 'fim.graph.networkx_property_graph:NetworkXGraphStorage.__NetworkXGraphStorage.'
TD = 'fim.graph.networkx_property_graph_disjoint:NetworkXGraphStorageDisjoint.__NetworkXGraphStorage.'

GUARDED = ('start_id', 'graph_node_ids')       # state that must only be read / written inside the critical section

METHODS = {
    'add_graph': ('graph_id', 'graph'),
    'add_graph_direct': ('graph_id', 'graph'),
    'del_graph': ('graph_id',),
    'extract_graph': ('graph_id',),
    'get_graph': ('graph_id',),
    'del_all_graphs': (),
    'add_blank_node_to_graph': ('graph_id',),
}


def lock_of(o):
    return o.d.e['lock'][1] if isinstance(o, PObj) else o.lock


def make_balance_contracts():
    out = []
    for flavour, cls, T in (('shared', SHARED, TS), ('disjoint', DISJOINT, TD)):
        for m, params in METHODS.items():
            class Balance(Contract):
                target = T + m
                props = ('C20',)
                faulting = True
                havoc_unmodelled = True
                no_crosscheck = True
                _cls = cls
                _m = m
                _params = params
                _flavour = flavour

                def inputs(self, g):
                    fields = dict(graphs=AnyVal('graphs'), log=None if g.choice(2, 'logger?') == 0 else Foreign(None),
                                  lock=LockVal())
                    if self._flavour == 'shared':
                        fields['start_id'] = g.int('start_id', lo=1)
                    else:
                        fields['graph_node_ids'] = AnyVal('graph_node_ids')
                    st = g.obj(self._cls, **fields)
                    args = [st]
                    for p in self._params:
                        args.append(g.atom('graph_id') if p == 'graph_id' else AnyVal(p))
                    kw = {}
                    if self._m == 'add_blank_node_to_graph':
                        kw = dict(Class=g.atom('cls'), NodeID=g.atom('nid'))
                    return args, kw

                def body(self, h, st, *a, **kw):
                    return h.call(getattr(self._cls, self._m) if not self._m.startswith('__') else None, st, *a, **kw)

                @staticmethod
                def _balanced(pre, post):
                    lk = lock_of(post.args[0])
                    if isinstance(lk, LockVal):
                        return (not lk.held) and lk.acquires == lk.releases and not lk.errors
                    return not lk.locked()

                @staticmethod
                def field_hook(I, obj, name, kind):
                    """ghost check: the id counters are touched only while the lock is held (Owicki-Gries style guard)"""
                    if name in GUARDED and isinstance(obj, PObj) and 'lock' in obj.d.e:
                        lk = obj.d.e['lock'][1]
                        if isinstance(lk, LockVal) and not lk.held:
                            I.ctx.ghost.setdefault('unguarded', []).append(f'{kind} of {name} while the lock is not held')

                ensures = {
                    'lock.guards_the_id_counters': lambda pre, post: not getattr(post, 'ghost', {}).get('unguarded'),
                    'lock.released_exactly_once_on_every_path': lambda pre, post: Balance._balanced(pre, post),
                    'lock.no_error_raised_by_the_lock': lambda pre, post: not (
                        post.exc is not None and isinstance(post.exc, PObj) and post.exc.cls is RuntimeError
                        and lock_of(post.args[0]).errors),
                }

                @classmethod
                def replay_custom(cls_, ctx, cname, model):
                    return replay_on_real_store(cls_._flavour, cls_._m, ctx)
            Balance.__name__ = f'Balance_{flavour}_{m}'
            out.append(Balance)
    return out


# ------------------------------------------------------------------------------------------- replay on the real store
class _Boom(Exception):
    pass


def replay_on_real_store(flavour, method, ctx):
    """fault sequence / scenario replayed on the REAL store class: make the guarded call named by the verifier raise once (or
    set up the duplicate-id scenario) and observe the real lock"""
    import networkx as nx
    import networkx_query as nxq
    import fim.graph.networkx_property_graph as shared_mod
    import fim.graph.networkx_property_graph_disjoint as disj_mod
    cls = SHARED if flavour == 'shared' else DISJOINT
    if ctx is not None and ctx.ghost.get('unguarded'):
        # a data race needs a second thread at a particular point: no sequential input shows it
        return False, dict(store=flavour, method=method, unguarded_accesses=ctx.ghost['unguarded'],
                           note='the id counter is accessed outside the critical section: two threads can be handed the same '
                                'internal identifier (needs a preemption between the release and this access)')
    fault = ctx.fault_at[1] if ctx is not None and ctx.fault_at else None
    tried = []

    def good_graph():
        g = nx.Graph()
        g.add_node('a', NodeID='n1', Class='NetworkNode')
        g.add_node('b', NodeID='n2', Class='Component')
        g.add_edge('a', 'b', Class='has')
        return g

    def bad_graph():
        g = good_graph()
        g.add_node('c', Class='NoId')
        return g

    for scenario in ('fresh', 'same id present', 'graph lacks a NodeID'):
        for inject in ([fault] if fault else []) + [None]:
            st = cls()
            if scenario != 'fresh':
                st.add_graph('g1', good_graph())
            args = dict(add_graph=('g1', bad_graph() if scenario == 'graph lacks a NodeID' else good_graph()),
                        add_graph_direct=('g1', good_graph()), del_graph=('g1',), extract_graph=('g1',), get_graph=('g1',),
                        del_all_graphs=(), add_blank_node_to_graph=('g1',))[method]
            patches = []
            if inject:
                patches = install_fault(inject, st, shared_mod if flavour == 'shared' else disj_mod)
                if patches is None:
                    continue
            outcome = 'returned'
            try:
                getattr(st, method)(*args)
            except _Boom:
                outcome = 'the injected exception propagated'
            except BaseException as e:   # noqa
                outcome = f'raised {type(e).__name__}: {e}'
            finally:
                for obj, name, old in patches:
                    setattr(obj, name, old)
            held = st.lock.locked()
            tried.append(dict(scenario=scenario, injected_fault=inject, outcome=outcome, lock_held_after_call=held))
            if held or 'release unlocked lock' in outcome:
                return True, dict(store=flavour, method=method, scenario=scenario, injected_fault=inject, outcome=outcome,
                                  lock_held_after_call=held,
                                  consequence='every later store call blocks forever' if held else 'the call fails with a lock error')
    return False, dict(note='no scenario reproduced the imbalance natively', tried=tried, verifier_fault_point=fault,
                       any_ops=list(ctx.any_ops) if ctx is not None else None)


def install_fault(label, store, mod):
    """make the library call named by `label` raise _Boom on its next invocation; returns undo records or None if the fault
    point cannot be reproduced natively"""
    import networkx as nx
    import networkx_query as nxq

    def boom(*a, **k):
        raise _Boom(label)
    name = label.rstrip('()')
    if name.startswith('networkx_query.'):
        f = name.split('.', 1)[1]
        old = getattr(nxq, f)
        setattr(nxq, f, boom)
        return [(nxq, f, old)]
    if name.startswith('networkx.'):
        f = name.split('.', 1)[1]
        if not hasattr(nx, f):
            return None
        old = getattr(nx, f)
        setattr(nx, f, boom)
        return [(nx, f, old)]
    if name.startswith('graphs.') and name.count('.') == 1 and not isinstance(store.graphs, dict):
        f = name.split('.', 1)[1]
        g = store.graphs
        if not hasattr(g, f):
            return None
        old = getattr(g, f)
        try:
            setattr(g, f, boom)
        except AttributeError:
            return None
        return [(g, f, old)]
    if name.startswith('graphs') and isinstance(store.graphs, dict):
        # disjoint store: the per-id dictionary itself misbehaves (e.g. mutated concurrently by an unlocked caller)
        class Faulty(type(store.graphs)):
            def __getitem__(self, k):
                raise _Boom(label)

            def clear(self):
                raise _Boom(label)

            def keys(self):
                raise _Boom(label)
        old = store.graphs
        store.graphs = Faulty(old.default_factory, old)
        return [(store, 'graphs', old)]
    return None


CONTRACTS = make_balance_contracts()
for _c in CONTRACTS:
    globals()[_c.__name__] = _c

# (b) identifier allocation / import completeness: sequential postconditions on the bounded graph model (see C04.py)
from contracts import C04 as _c04
for _c in _c04.STORE_CONTRACTS:
    if 'C20' in _c.props:
        class _B(_c):
            ensures = {k: v for k, v in _c.ensures.items() if k.startswith(('import.', 'alloc.', 'internal_ids'))}
        _B.__name__ = _c.__name__
        _B.cost = getattr(_c, 'cost', 1)
        globals()[_B.__name__] = _B
        CONTRACTS.append(_B)
