"""
C04 -- Graphs sharing the in-memory store are isolated; clones are independent.

Per operation (every mutator of both back ends, the store-level import / re-import / delete, clone) the obligations are the
FRAME conditions of the statement -- every node that does not belong to the addressed graph keeps its attribute map and its
connections, no new node claims another graph's id, internal identifiers stay distinct and fresh -- plus clone.same /
clone.independent.  The history quantifier is discharged by the usual induction over per-call frames (stated, not mechanised).
BOUNDED: real methods executed over the bounded store model (<= 3 stored nodes over two graph ids, incoming graphs of <= 2
nodes whose own keys collide with stored ones; all attribute values symbolic).
"""
import z3
from pyvc.harness import Contract
from pyvc.spec import And, Or, Not, Implies, Iff, eq, same, returned, raised, Ite
from pyvc.values import PDict, PList, PObj
from pyvc.nxmodel import NXGraph
from contracts import pgops, graphmodel as gm
from contracts.graphmodel import (gen_shared_world, gen_disjoint_world, handle, g_nodes, g_attr, g_attrs, g_edges, g_eattrs,
                                  g_has_edge, fldv, dict_same, same_val, a_keys, a_get, build_graph, count)
from contracts.pgops import graphs_of, frame_other_graphs, others_same, in_g, unchanged, distinct_keys

LEVEL = 'other'
CONTRACTS = []
for _fl in ('shared', 'disjoint'):
    for _name, _c in pgops.make_ops(_fl).items():
        fr = {k: v for k, v in _c.ensures.items() if k.startswith('frame.') or k == 'internal_ids_distinct'}
        if not fr:
            continue

        class _C(_c):
            ensures = fr
            props = ('C04',)
        _C.__name__ = _c.__name__
        _C.cost = _c.cost
        globals()[_C.__name__] = _C
        CONTRACTS.append(_C)

TS = 'fim.graph.networkx_property_graph:NetworkXGraphStorage.__NetworkXGraphStorage.'
TD = 'fim.graph.networkx_property_graph_disjoint:NetworkXGraphStorageDisjoint.__NetworkXGraphStorage.'
TP = 'fim.graph.networkx_property_graph:NetworkXPropertyGraph.'


def incoming(g, gids):
    """a raw graph to import: 1..2 nodes whose own keys (1, 2) collide with internal ids of the store"""
    nodes = []
    for i in (1, 2):
        if i == 1 or g.choice(2, f'incoming node {i}?') == 0:
            attrs = {'Class': g.atom(f'icls{i}')}
            if g.choice(2, f'incoming node {i} has NodeID?') == 0:
                attrs['NodeID'] = g.atom(f'inid{i}')
            if g.choice(2, f'incoming node {i} carries a foreign GraphID?') == 0:
                attrs['GraphID'] = gids[1]
            nodes.append((i, attrs))
    edges = []
    if len(nodes) == 2 and g.choice(2, 'incoming edge?') == 0:
        edges.append((1, 2, {'Class': g.atom('irel')}))
    return build_graph(nodes, edges)


def store_of(x):
    return x


def graphs_of_store(store, gid):
    """same as pgops.graphs_of but starting from the store object"""
    class H:
        pass
    h = PObj(object, dict(storage=store, graph_id=gid)) if isinstance(store, PObj) else type('H', (), dict(storage=store, graph_id=gid))()
    return graphs_of(h)


def make_store_contracts(flavour):
    out = []
    T = TS if flavour == 'shared' else TD
    SC = gm.SHARED if flavour == 'shared' else gm.DISJOINT

    class AddGraph(Contract):
        """import / re-import (same id) of a raw graph into the store"""
        target = T + 'add_graph'
        props = ('C04', 'C20', 'C01')
        bounded = gm.BOUND + '; incoming graph of 1..2 nodes'
        max_paths = 40000
        cost = 30

        def inputs(self, g):
            w = gen_shared_world(g, slack=True) if flavour == 'shared' else gen_disjoint_world(g)
            gC = g.atom('gC')
            g.assume(z3.And(gC.t != w.gA.t, gC.t != w.gB.t))
            gid = g.pick([w.gA, gC], 'same id again or a new id')
            return [w.store, gid, incoming(g, [w.gA, w.gB])], {}

        def body(self, h, st, gid, graph):
            return h.call(SC.add_graph, st, gid, graph)

        @staticmethod
        def _views(pre, post):
            G0, gid, o0 = graphs_of_store(pre.args[0], pre.args[1])
            G1, _, o1 = graphs_of_store(post.args[0], pre.args[1])
            return G0, G1, gid, o0, o1

        @staticmethod
        def _frame(pre, post):
            G0, G1, gid, o0, o1 = AddGraph._views(pre, post)

            class P:
                pass
            p0, p1 = P(), P()
            h0 = graphs_of_store(pre.args[0], pre.args[1])
            # reuse the frame predicate through handle-like wrappers
            import types
            pre_h = types.SimpleNamespace(args=[_mk_handle(pre.args[0], pre.args[1])])
            post_h = types.SimpleNamespace(args=[_mk_handle(post.args[0], pre.args[1])])
            return frame_other_graphs(pre_h, post_h)

        @staticmethod
        def _complete(pre, post):
            """exactly the incoming nodes are added under the given graph id, with fresh distinct internal ids"""
            G0, G1, gid, o0, o1 = AddGraph._views(pre, post)
            inc = pre.args[2]
            all_have_id = all('NodeID' in a_keys(g_attrs(inc, n)) for n in g_nodes(inc))
            if not returned(post):
                return not all_have_id
            if flavour == 'disjoint' and G0 is not None and len(g_nodes(G0)) > 0:
                # documented: an import under the id of a graph the store holds is skipped (the emptied entry a deleted graph
                # leaves behind does not count as held -- repaired defect, C01)
                return And(all_have_id or True, unchanged_store(pre, post))
            if not all_have_id or G1 is None:
                return False
            old = set(g_nodes(G0)) if G0 is not None else set()
            new = [n for n in g_nodes(G1) if n not in old]
            out = [len(new) == len(g_nodes(inc))]
            if len(new) != len(g_nodes(inc)):
                return False
            mp = dict(zip(g_nodes(inc), new))            # import keeps the node order
            for n0, n1 in mp.items():
                want = {k: a_get(g_attrs(inc, n0), k) for k in a_keys(g_attrs(inc, n0))}
                want['GraphID'] = gid
                a1 = g_attrs(G1, n1)
                out.append(set(a_keys(a1)) == set(want) and And(*[same_val(a_get(a1, k), v) for k, v in want.items()]))
            inc_edges = {gm.ekey(mp[a], mp[b]) for a, b in g_edges(inc)}
            new_edges = {e for e in g_edges(G1) if e[0] in new or e[1] in new}
            out.append(inc_edges == new_edges)
            for a, b in g_edges(inc):
                if gm.ekey(mp[a], mp[b]) in set(g_edges(G1)):
                    out.append(dict_same(g_eattrs(inc, a, b), g_eattrs(G1, mp[a], mp[b])))
            if flavour == 'shared':
                # re-import under the same id replaces: the old nodes of that graph are gone
                for n in g_nodes(G0):
                    out.append(Iff(in_g(G0, n, gid), n not in set(g_nodes(G1))))
                s0, s1 = fldv(pre.args[0], 'start_id'), fldv(post.args[0], 'start_id')
                out += [same(s1, s0 + len(new)), all(n >= s0 for n in new), all(n < s1 for n in g_nodes(G1))]
            return And(*out)

        ensures = {
            'frame.other_graphs': lambda pre, post: AddGraph._frame(pre, post),
            'import.complete_fresh_ids': lambda pre, post: AddGraph._complete(pre, post),
            'internal_ids_distinct': lambda pre, post: True if AddGraph._views(pre, post)[1] is None else len(set(g_nodes(
                AddGraph._views(pre, post)[1]))) == len(g_nodes(AddGraph._views(pre, post)[1])),
            'incoming_graph_untouched': lambda pre, post: gm.graph_same(pre.args[2], post.args[2]),
        }
    AddGraph.__name__ = f'StoreAddGraph_{flavour}'
    out.append(AddGraph)

    class AddBlank(Contract):
        target = T + 'add_blank_node_to_graph'
        props = ('C20', 'C04')
        bounded = gm.BOUND

        def inputs(self, g):
            w = gen_shared_world(g, slack=True) if flavour == 'shared' else gen_disjoint_world(g)
            return [w.store, w.gA], dict(Class=g.atom('c'), NodeID=g.atom('n'))

        def body(self, h, st, gid, **kw):
            return h.call(SC.add_blank_node_to_graph, st, gid, **kw)

        @staticmethod
        def _alloc(pre, post):
            G0, gid, o0 = graphs_of_store(pre.args[0], pre.args[1])
            G1, _, o1 = graphs_of_store(post.args[0], pre.args[1])
            if not returned(post) or G1 is None:
                return False
            old = set(g_nodes(G0)) if G0 is not None else set()
            new = [n for n in g_nodes(G1) if n not in old]
            if len(new) != 1 or not old <= set(g_nodes(G1)):
                return False            # no node lost, exactly one added
            n = new[0]
            want = dict(GraphID=gid, Class=pre.kwargs['Class'], NodeID=pre.kwargs['NodeID'])
            a1 = g_attrs(G1, n)
            out = [same(post.result, n), set(a_keys(a1)) == set(want) and And(*[same_val(a_get(a1, k), v) for k, v in want.items()])]
            if G0 is not None:
                out.append(gm.graph_same(G0, G1, keep=lambda x: x in old))
            out.append(others_same(o0, o1))
            if flavour == 'shared':
                s0, s1 = fldv(pre.args[0], 'start_id'), fldv(post.args[0], 'start_id')
                out += [same(s1, s0 + 1), n == s0, all(x < s1 for x in g_nodes(G1))]
            else:
                c1 = fldv(post.args[0], 'graph_node_ids')
                nxt = [v[1] for k, v in c1.e.items() if k is gid][0] if isinstance(c1, PDict) else c1[gid]
                out += [all(x < nxt for x in g_nodes(G1))]
            return And(*out)

        ensures = {'alloc.fresh_id_returned_counter_ahead_no_node_lost': lambda pre, post: AddBlank._alloc(pre, post)}
    AddBlank.__name__ = f'StoreAddBlankNode_{flavour}'
    out.append(AddBlank)

    def with_any_valued_property(g, w):
        """the first node of the cloned graph carries a property whose value may be an int, a string or a boolean -- in
        particular 0, '' and False (set, but falsy)"""
        G = w.store_graph if flavour == 'shared' else w.per_graph.get('A')
        if G is None:
            return
        for n in g_nodes(G):
            if g_attr(G, n, 'GraphID') is w.gA:
                g_attrs(G, n).e['Count'] = [True, g.U('count', ('int', 'str', 'bool'))]
                return

    class Clone(Contract):
        target = TP + 'clone_graph'
        extra_targets = (T + 'extract_graph', T + 'add_graph')
        props = ('C04', 'C01')
        bounded = gm.BOUND
        max_paths = 40000
        cost = 20

        def inputs(self, g):
            w = gen_shared_world(g, slack=True) if flavour == 'shared' else gen_disjoint_world(g)
            with_any_valued_property(g, w)
            gC = g.atom('gC')
            g.assume(z3.And(gC.t != w.gA.t, gC.t != w.gB.t))
            return [handle(w, w.gA)], dict(new_graph_id=gC)

        def body(self, h, pg, **kw):
            return h.call(pgops.cls_of(flavour).clone_graph, pg, **kw)

        @staticmethod
        def _same(pre, post):
            G0, gid, o0 = graphs_of(pre.args[0])
            store1 = fldv(post.args[0], 'storage')
            gC = pre.kwargs['new_graph_id']
            if not returned(post):
                # an empty source graph cannot be cloned on the shared store (extract_graph gives None)
                return Not(pgops.nonempty(G0, gid))
            GC1 = graphs_of_store(store1, gC)[0]
            G1 = graphs_of(post.args[0])[0]
            if flavour == 'disjoint' and (G0 is None or len(g_nodes(G0)) == 0):
                return GC1 is None or len(g_nodes(GC1)) == 0        # the clone of an empty graph is empty
            if GC1 is None or G0 is None:
                return False
            src = [n for n in g_nodes(G0)]
            old = set(g_nodes(G0)) if flavour == 'shared' else set()
            new = [n for n in g_nodes(GC1) if n not in old] if flavour == 'shared' else list(g_nodes(GC1))
            out = [pgops.nonempty(G0, gid)] if flavour == 'shared' else []
            # the clone's nodes, in order, are the source's nodes of this graph
            members = [n for n in src]
            conds = []
            k = 0
            # on every path membership is decided; match clone nodes to member nodes in order
            return And(*out, clone_matches(G0, GC1, gid, gC, new))

        @staticmethod
        def _independent(pre, post):
            """no attribute map of the clone is the same object as one of the source"""
            if not returned(post):
                return True
            G1 = graphs_of(post.args[0])[0]
            GC1 = graphs_of_store(fldv(post.args[0], 'storage'), pre.kwargs['new_graph_id'])[0]
            if G1 is None or GC1 is None:
                return True
            gid = fldv(post.args[0], 'graph_id')
            maps_src = [g_attrs(G1, n) for n in g_nodes(G1)] + [g_eattrs(G1, a, b) for a, b in g_edges(G1)]
            if flavour == 'shared':
                return len({id(m) for m in maps_src}) == len(maps_src)
            maps_cl = [g_attrs(GC1, n) for n in g_nodes(GC1)] + [g_eattrs(GC1, a, b) for a, b in g_edges(GC1)]
            return not ({id(m) for m in maps_src} & {id(m) for m in maps_cl})

        ensures = {
            'clone.same_content_under_new_id': lambda pre, post: Clone._same(pre, post),
            'clone.independent': lambda pre, post: Clone._independent(pre, post),
            'frame.source_and_other_graphs': lambda pre, post: frame_clone(pre, post),
        }
    Clone.__name__ = f'Clone_{flavour}'
    out.append(Clone)
    return out


def _mk_handle(store, gid):
    import types
    if isinstance(store, PObj):
        return PObj(object, dict(storage=store, graph_id=gid))
    return types.SimpleNamespace(storage=store, graph_id=gid)


def unchanged_store(pre, post):
    import types
    return unchanged(types.SimpleNamespace(args=[_mk_handle(pre.args[0], pre.args[1])]),
                     types.SimpleNamespace(args=[_mk_handle(post.args[0], pre.args[1])]))


def clone_matches(G0, GC1, gid, gC, new):
    """the nodes `new` of the clone are, in order, the members of graph gid in G0: same attribute maps except GraphID = gC, and
    the edges among them are the edges among the members (same maps)"""
    src = g_nodes(G0)
    # membership is symbolic: enumerate which subset of src are members (consistent with the number of clone nodes)
    import itertools
    alts = []
    for sub in itertools.combinations(src, len(new)):
        cond = [in_g(G0, n, gid) if n in sub else Not(in_g(G0, n, gid)) for n in src]
        mp = dict(zip(sub, new))
        for n0, n1 in mp.items():
            want = {k: a_get(g_attrs(G0, n0), k) for k in a_keys(g_attrs(G0, n0))}
            want['GraphID'] = gC
            a1 = g_attrs(GC1, n1)
            cond.append(set(a_keys(a1)) == set(want) and And(*[same_val(a_get(a1, k), v) for k, v in want.items()]))
        src_edges = {gm.ekey(mp[a], mp[b]) for a, b in g_edges(G0) if a in mp and b in mp}
        cl_edges = {e for e in g_edges(GC1) if e[0] in new and e[1] in new}
        cond.append(src_edges == cl_edges)
        for a, b in g_edges(G0):
            if a in mp and b in mp and gm.ekey(mp[a], mp[b]) in cl_edges:
                cond.append(dict_same(g_eattrs(G0, a, b), g_eattrs(GC1, mp[a], mp[b])))
        alts.append(And(*cond))
    return Or(*alts)


def frame_clone(pre, post):
    """source graph and every other graph are exactly as before (the clone only adds nodes of the new id)"""
    import types
    G0, gid, o0 = graphs_of(pre.args[0])
    G1, _, o1 = graphs_of(post.args[0])
    gC = pre.kwargs['new_graph_id']
    if G0 is None or G1 is None:
        return True
    out = []
    n1 = set(g_nodes(G1))
    for n in g_nodes(G0):
        out.append(And(n in n1, dict_same(g_attrs(G0, n), g_attrs(G1, n)) if n in n1 else False))
    e1 = set(g_edges(G1))
    for (a, b) in g_edges(G0):
        out.append(And((a, b) in e1, dict_same(g_eattrs(G0, a, b), g_eattrs(G1, a, b)) if (a, b) in e1 else False))
    for n in g_nodes(G1):
        if n not in set(g_nodes(G0)):
            out.append(eq(g_attr(G1, n, 'GraphID'), gC))
    d1 = {repr(k): v for k, v in o1}
    for k, v in o0:
        out.append(gm.graph_same(v, d1[repr(k)]) if repr(k) in d1 else len(g_nodes(v)) == 0)
    return And(*out)


STORE_CONTRACTS = make_store_contracts('shared') + make_store_contracts('disjoint')
for _c in STORE_CONTRACTS:
    globals()[_c.__name__] = _c
CONTRACTS += [c for c in STORE_CONTRACTS if 'C04' in c.props]
