"""
contracts.common -- callee contracts (summaries) shared by several properties.  Each summary states the contract that the
owning property proves on the real function; callers are verified against it instead of re-executing the body.
"""
import re

import z3

from pyvc import models
from pyvc.values import mk, is_sym, Sym
from fim.slivers.base_sliver import BaseSliver

_VALID = {}


def valid_name_pred(cls):
    """uninterpreted predicate 'name is valid for sliver class cls' (= fullmatch of the class's NAME_REGEX; the equivalence of
    BaseSliver.set_name with that regex is proved in C16/SetName_*); an oracle keeps counter-models realistic"""
    key = cls.__name__
    if key not in _VALID:
        f = z3.Function(f'valid_name_{key}', z3.StringSort(), z3.BoolSort())
        rx = re.compile(cls.NAME_REGEX)
        _VALID[key] = f
        models.EXTRA_ORACLES[f.name()] = (f, lambda s, rx=rx: rx.fullmatch(s) is not None)
        models.EXTRA_SEEDS[f.name()] = [x for x in ('ab', 'cd', 'ab-p1', 'ab-p2', 'ab-l2ovs', 'ab-l2p4', 'cd-ab-l2ovs', 'cd-ab-l2p4',
                                                     'ab-ns', 'ab-int0') if rx.fullmatch(x)]
    return _VALID[key]


def valid_name(cls, s):
    if isinstance(s, str):
        return re.fullmatch(cls.NAME_REGEX, s) is not None
    return mk(valid_name_pred(cls)(s.t), 'bool')


def set_name_summary(I, args, kwargs):
    """CONTRACT of BaseSliver.set_name (C16/SetName_<Class>): stores exactly the given name iff it is valid for the sliver's
    class, otherwise raises ValueError and leaves the sliver unchanged (None: TypeError)."""
    self, name = args[0], args[1] if len(args) > 1 else kwargs['resource_name']
    if name is None:
        I.raise_(TypeError, 'expected string')
    if not (isinstance(name, str) or is_sym(name) and name.k == 'str'):
        from pyvc.values import Unsupported
        raise Unsupported('set_name with a non-string')
    if not I.ctx.branch(valid_name(self.cls, name)):
        I.raise_(ValueError, 'invalid name')
    I.dict_set(self.d, 'resource_name', name)
    return None


SET_NAME = {'fim.slivers.base_sliver:BaseSliver.set_name': set_name_summary}
