"""
C15 -- Capacity arithmetic and comparison obey their algebraic laws.

Functions under contract: Capacities.__init__/_set_fields (through the constructor), __add__, __sub__, __gt__,
__lt__, __eq__, negative_fields, positive_fields, to_json/__str__ (printable), FreeCapacity.__init__/__getattr__.
All fields range over the *unbounded* integers (results of subtraction may be negative).
"""
from pyvc.harness import Contract
from pyvc.spec import (And, Or, Not, Implies, Iff, forall, eq, same, fld, has, keys, items, is_list, returned, raised,
                       fields_same, same_obj, isinst, is_none, Ite, length, is_true, is_false, is_bool)
from fim.slivers.capacities_labels import Capacities, FreeCapacity

T = 'fim.slivers.capacities_labels:'
# the field set is read from the real class on every run
FIELDS = list(Capacities().__dict__.keys())


def cap(g, name, lo=None):
    return g.obj(Capacities, **{f: g.int(f'{name}.{f}', lo=lo) for f in FIELDS})


def is_cap(o):
    return And(isinst(o, Capacities), keys(o) == FIELDS)


def fresh_result(pre, post):
    return And(not same_obj(post.result, post.args[0]), not same_obj(post.result, post.args[1]))


class CapAdd(Contract):
    target = T + 'Capacities.__add__'
    props = ('C15',)

    def inputs(self, g):
        return [cap(g, 'a'), cap(g, 'b')], {}

    ensures = {
        'add.returns': lambda pre, post: returned(post),
        'add.fieldwise': lambda pre, post: And(returned(post), is_cap(post.result), forall(FIELDS, lambda f: eq(
            fld(post.result, f), fld(pre.args[0], f) + fld(pre.args[1], f)))),
        'add.fresh': lambda pre, post: And(returned(post), fresh_result(pre, post)),
        'add.operands_unmodified': lambda pre, post: And(fields_same(pre.args[0], post.args[0]),
                                                         fields_same(pre.args[1], post.args[1])),
    }


class CapSub(Contract):
    target = T + 'Capacities.__sub__'
    props = ('C15',)

    def inputs(self, g):
        return [cap(g, 'a'), cap(g, 'b')], {}

    ensures = {
        # neg.representable: subtraction never raises, whatever the sign of the result
        'sub.returns(neg.representable)': lambda pre, post: returned(post),
        'sub.fieldwise': lambda pre, post: And(returned(post), is_cap(post.result), forall(FIELDS, lambda f: eq(
            fld(post.result, f), fld(pre.args[0], f) - fld(pre.args[1], f)))),
        'sub.fresh': lambda pre, post: And(returned(post), fresh_result(pre, post)),
        'sub.operands_unmodified': lambda pre, post: And(fields_same(pre.args[0], post.args[0]),
                                                         fields_same(pre.args[1], post.args[1])),
    }


class AddCommutes(Contract):
    """lemma over the real operators: a+b == b+a field by field"""
    target = T + 'Capacities.__add__'
    props = ('C15',)

    def inputs(self, g):
        return [cap(g, 'a'), cap(g, 'b')], {}

    def body(self, h, a, b):
        return (h.op('Add', a, b), h.op('Add', b, a))

    ensures = {
        'add.commutes': lambda pre, post: And(returned(post), forall(FIELDS, lambda f: eq(
            fld(post.result[0], f), fld(post.result[1], f)))),
    }


class AddSubCancel(Contract):
    target = T + 'Capacities.__sub__'
    extra_targets = (T + 'Capacities.__add__',)
    props = ('C15',)

    def inputs(self, g):
        return [cap(g, 'a'), cap(g, 'b')], {}

    def body(self, h, a, b):
        return h.op('Sub', h.op('Add', a, b), b)

    ensures = {
        'addsub.cancel': lambda pre, post: And(returned(post), forall(FIELDS, lambda f: eq(
            fld(post.result, f), fld(pre.args[0], f)))),
        'addsub.operands_unmodified': lambda pre, post: And(fields_same(pre.args[0], post.args[0]),
                                                            fields_same(pre.args[1], post.args[1])),
    }


class FreeCap(Contract):
    """free = total - allocated; free + allocated = total; allocated=None means nothing allocated"""
    target = T + 'FreeCapacity.__init__'
    extra_targets = (T + 'FreeCapacity.__getattr__', T + 'Capacities.__init__', T + 'Capacities._set_fields')
    props = ('C15',)

    def inputs(self, g):
        total = cap(g, 'total')
        if g.choice(2, 'allocated given?') == 0:
            alloc = cap(g, 'alloc')
        else:
            alloc = None
        return [], dict(total=total, allocated=alloc)

    def body(self, h, total, allocated):
        fc = h.call(FreeCapacity, total=total, allocated=allocated)
        # read every field through the public attribute access (FreeCapacity.__getattr__)
        return {f: h.getattr(fc, f) for f in FIELDS}

    @staticmethod
    def _alloc(pre, f):
        a = pre.kwargs['allocated']
        return 0 if a is None else fld(a, f)

    ensures = {
        'free.def': lambda pre, post: And(returned(post), forall(FIELDS, lambda f: eq(
            post.result[f], fld(pre.kwargs['total'], f) - FreeCap._alloc(pre, f)))),
        'free.sum': lambda pre, post: And(returned(post), forall(FIELDS, lambda f: eq(
            post.result[f] + FreeCap._alloc(pre, f), fld(pre.kwargs['total'], f)))),
        'free.operands_unmodified': lambda pre, post: And(
            fields_same(pre.kwargs['total'], post.kwargs['total']),
            True if pre.kwargs['allocated'] is None else fields_same(pre.kwargs['allocated'], post.kwargs['allocated'])),
    }


class NegativeFields(Contract):
    target = T + 'Capacities.negative_fields'
    props = ('C15',)

    def inputs(self, g):
        return [cap(g, 'a')], {}

    ensures = {
        'negfields.exact': lambda pre, post: And(returned(post), is_list(post.result), forall(FIELDS, lambda f: Iff(
            f in items(post.result), fld(pre.args[0], f) < 0)), forall(items(post.result), lambda n: n in FIELDS),
            len(set(items(post.result))) == len(items(post.result))),
        'negfields.pure': lambda pre, post: fields_same(pre.args[0], post.args[0]),
    }


class PositiveFields(Contract):
    target = T + 'Capacities.positive_fields'
    props = ('C15',)

    def inputs(self, g):
        a = cap(g, 'a')
        form = g.choice(3, 'fields argument form')
        f1 = g.pick(FIELDS, 'field 1')
        if form == 0:
            fields = f1
        elif form == 1:
            from pyvc.values import PList
            fields = PList([f1])
        else:
            from pyvc.values import PList
            fields = PList([f1, g.pick(FIELDS, 'field 2')])
        return [a, fields], {}

    ensures = {
        'posfields.exact': lambda pre, post: And(returned(post), Iff(is_true(post.result), forall(
            [pre.args[1]] if isinstance(pre.args[1], str) else items(pre.args[1]),
            lambda f: fld(pre.args[0], f) > 0)), Or(is_true(post.result), is_false(post.result))),
    }


class LtIffSub(Contract):
    """a fits in b  <=>  b - a has no negative field  (and the names reported are exactly the offending fields)"""
    target = T + 'Capacities.__lt__'
    extra_targets = (T + 'Capacities.__sub__', T + 'Capacities.negative_fields')
    props = ('C15',)

    def inputs(self, g):
        return [cap(g, 'a'), cap(g, 'b')], {}

    def body(self, h, a, b):
        fits = h.cmp('Lt', a, b)
        neg = h.call(Capacities.negative_fields, h.op('Sub', b, a))
        return (fits, neg)

    ensures = {
        'lt.iff_sub': lambda pre, post: And(returned(post), Iff(is_true(post.result[0]), len(items(post.result[1])) == 0),
                                            Or(is_true(post.result[0]), is_false(post.result[0]))),
        'lt.names': lambda pre, post: And(returned(post), forall(FIELDS, lambda f: Iff(
            f in items(post.result[1]), fld(pre.args[0], f) > fld(pre.args[1], f)))),
        'lt.operands_unmodified': lambda pre, post: And(fields_same(pre.args[0], post.args[0]),
                                                        fields_same(pre.args[1], post.args[1])),
    }


class GtIffSub(Contract):
    target = T + 'Capacities.__gt__'
    extra_targets = (T + 'Capacities.__sub__', T + 'Capacities.negative_fields')
    props = ('C15',)

    def inputs(self, g):
        return [cap(g, 'a'), cap(g, 'b')], {}

    def body(self, h, a, b):
        holds = h.cmp('Gt', a, b)
        neg = h.call(Capacities.negative_fields, h.op('Sub', a, b))
        return (holds, neg)

    ensures = {
        'gt.iff_sub': lambda pre, post: And(returned(post), Iff(is_true(post.result[0]), len(items(post.result[1])) == 0),
                                            Or(is_true(post.result[0]), is_false(post.result[0]))),
        'gt.operands_unmodified': lambda pre, post: And(fields_same(pre.args[0], post.args[0]),
                                                        fields_same(pre.args[1], post.args[1])),
    }


class EqLaws(Contract):
    target = T + 'Capacities.__eq__'
    props = ('C15',)

    def inputs(self, g):
        return [cap(g, 'a'), cap(g, 'b')], {}

    def body(self, h, a, b):
        return (h.cmp('Eq', a, a), h.cmp('Eq', a, b), h.cmp('Eq', b, a))

    ensures = {
        'eq.reflexive': lambda pre, post: And(returned(post), is_true(post.result[0])),
        'eq.symmetric': lambda pre, post: And(returned(post), Iff(is_true(post.result[1]), is_true(post.result[2])), is_bool(post.result[1]), is_bool(post.result[2])),
        'eq.fieldwise': lambda pre, post: And(returned(post), Iff(is_true(post.result[1]), forall(
            FIELDS, lambda f: eq(fld(pre.args[0], f), fld(pre.args[1], f))))),
        'eq.operands_unmodified': lambda pre, post: And(fields_same(pre.args[0], post.args[0]),
                                                        fields_same(pre.args[1], post.args[1])),
    }


class Printable(Contract):
    """a value with negative fields is representable and printable rather than an error (to_json exact through the
    json model; __str__ uses the {v:,} format spec whose text is opaque -- assumed total, see trusted_base)"""
    target = T + 'JSONField.to_json'
    extra_targets = (T + 'Capacities.__str__',)
    props = ('C15',)

    def inputs(self, g):
        return [cap(g, 'a')], {}

    def body(self, h, a):
        return (h.call(Capacities.to_json, a), h.call(Capacities.__str__, a))

    ensures = {
        'neg.printable': lambda pre, post: returned(post),
        'print.pure': lambda pre, post: fields_same(pre.args[0], post.args[0]),
    }


CONTRACTS = [CapAdd, CapSub, AddCommutes, AddSubCancel, FreeCap, NegativeFields, PositiveFields, LtIffSub, GtIffSub,
             EqLaws, Printable]
