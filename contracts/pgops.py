"""
contracts.pgops -- per-operation contracts of the in-memory property-graph back ends (L1 interface), used by C05 (both back
ends against the same documented semantics, incl. which calls raise) and C04 (frame: other graphs untouched).
Every contract runs the REAL method over the bounded store model for one store flavour.
"""
from pyvc.harness import Contract
from pyvc.spec import And, Or, Not, Implies, Iff, eq, same, returned, raised, is_list, Ite, is_true, is_false
from pyvc.values import PList, PDict, PObj, is_sym
from contracts import graphmodel as gm
from contracts.graphmodel import (gen_shared_world, gen_disjoint_world, handle, g_nodes, g_attr, g_attrs, g_edges, g_eattrs,
                                  g_has_edge, store_graph, bag_eq, count, as_list, a_get, a_keys, fldv, dict_same, same_val)
from fim.graph.networkx_property_graph import NetworkXPropertyGraph
from fim.graph.networkx_property_graph_disjoint import NetworkXPropertyGraphDisjoint
from fim.graph.abc_property_graph import ABCPropertyGraph

TP = 'fim.graph.networkx_property_graph:NetworkXPropertyGraph.'
TM = 'fim.graph.networkx_mixin:NetworkXMixin.'
NO_UNSET = list(ABCPropertyGraph.NO_UNSET_PROPERTIES)
PROPS = ['Class', 'GraphID', 'NodeID', 'Type', 'Name', 'Extra']


def world(g, flavour, extra='Extra', slack=False):
    return gen_shared_world(g, extra_prop=extra, slack=slack) if flavour == 'shared' else gen_disjoint_world(g, extra_prop=extra)


def cls_of(flavour):
    return NetworkXPropertyGraph if flavour == 'shared' else NetworkXPropertyGraphDisjoint


def graphs_of(hnd):
    """-> (graph holding the addressed graph or None, gid, [other graph objects of a disjoint store])"""
    store = fldv(hnd, 'storage')
    gid = fldv(hnd, 'graph_id')
    graphs = fldv(store, 'graphs')
    if isinstance(graphs, (PDict, dict)):
        others = []
        G = None
        it = [(k, v[1]) for k, v in graphs.e.items()] if isinstance(graphs, PDict) else list(graphs.items())
        for k, v in it:
            if k is gid or (not is_sym(k) and not is_sym(gid) and k == gid):
                G = v
            else:
                others.append((k, v))
        return G, gid, others
    return graphs, gid, []


def in_g(G, n, gid):
    return eq(g_attr(G, n, 'GraphID'), gid)


def is_target(G, gid, n, node_id):
    return And(in_g(G, n, gid), eq(g_attr(G, n, 'NodeID'), node_id))


def unique(G, gid, node_id):
    if G is None:
        return False
    return eq(count(g_nodes(G), lambda n: is_target(G, gid, n, node_id)), 1)


def nonempty(G, gid):
    if G is None:
        return False
    return Or(*[in_g(G, n, gid) for n in g_nodes(G)])


def unchanged(pre, post):
    """the whole store content is as before (nodes, attribute maps, edges, edge maps -- every graph)"""
    G0, gid, o0 = graphs_of(pre.args[0])
    G1, _, o1 = graphs_of(post.args[0])
    out = []
    if (G0 is None) != (G1 is None):
        # a defaultdict entry created by a lookup is not a change of content
        G = G0 if G0 is not None else G1
        out.append(len(g_nodes(G)) == 0)
    elif G0 is not None:
        out.append(gm.graph_same(G0, G1))
    out.append(others_same(o0, o1))
    return And(*out)


def others_same(o0, o1):
    d1 = {repr(k): v for k, v in o1}
    out = []
    for k, v in o0:
        if repr(k) not in d1:
            out.append(len(g_nodes(v)) == 0)
        else:
            out.append(gm.graph_same(v, d1[repr(k)]))
    for k, v in o1:
        if repr(k) not in {repr(a) for a, _ in o0}:
            out.append(len(g_nodes(v)) == 0)
    return And(*out)


def frame_other_graphs(pre, post):
    """C04: every node that does not belong to the addressed graph is still there with the same attribute map, the edges among
    such nodes and their maps are the same, and no new node claims another graph's id"""
    G0, gid, o0 = graphs_of(pre.args[0])
    G1, _, o1 = graphs_of(post.args[0])
    out = [others_same(o0, o1)]
    if G0 is None or G1 is None:
        return And(*out)
    n1 = set(g_nodes(G1))
    for n in g_nodes(G0):
        other = Not(in_g(G0, n, gid))
        out.append(Implies(other, And(n in n1, dict_same(g_attrs(G0, n), g_attrs(G1, n)) if n in n1 else False)))
    e1 = set(g_edges(G1))
    for (a, b) in g_edges(G0):
        both_other = And(Not(in_g(G0, a, gid)), Not(in_g(G0, b, gid)))
        out.append(Implies(both_other, And((a, b) in e1, dict_same(g_eattrs(G0, a, b), g_eattrs(G1, a, b)) if (a, b) in e1 else False)))
    for n in g_nodes(G1):
        if n not in set(g_nodes(G0)):
            out.append(in_g(G1, n, gid))
    for (a, b) in g_edges(G1):
        if (a, b) not in set(g_edges(G0)):
            if a in set(g_nodes(G0)) and b in set(g_nodes(G0)):
                out.append(Or(in_g(G0, a, gid), in_g(G0, b, gid)))
    return And(*out)


def distinct_keys(post):
    G1, _, _ = graphs_of(post.args[0])
    return True if G1 is None else len(set(g_nodes(G1))) == len(g_nodes(G1))


def except_target(G0, G1, gid, node_id, target_ok):
    """G1 equals G0 on everything but the attribute map of the target node; target_ok(attrs0, attrs1) constrains that map"""
    if set(g_nodes(G0)) != set(g_nodes(G1)) or set(g_edges(G0)) != set(g_edges(G1)):
        return False
    out = []
    for n in g_nodes(G0):
        t = is_target(G0, gid, n, node_id)
        out.append(Ite(t, target_ok(g_attrs(G0, n), g_attrs(G1, n)), dict_same(g_attrs(G0, n), g_attrs(G1, n))))
    for (a, b) in g_edges(G0):
        out.append(dict_same(g_eattrs(G0, a, b), g_eattrs(G1, a, b)))
    return And(*out)


def attrs_with(a0, a1, changes, removed=()):
    """a1 == a0 updated with `changes` (dict name -> value) and without `removed`"""
    k0 = [k for k in a_keys(a0) if k not in removed]
    want = list(dict.fromkeys(k0 + list(changes)))
    if set(a_keys(a1)) != set(want):
        return False
    return And(*[same_val(a_get(a1, k), changes[k] if k in changes else a_get(a0, k)) for k in want])


def make_ops(flavour):
    C = cls_of(flavour)
    ops = {}

    def op(name, method, gen, clauses, cost=3, extra_targets=()):
        class Op(Contract):
            target = TP + method
            props = ('C05', 'C04')
            bounded = gm.BOUND
            max_paths = 40000

            def inputs(self, g):
                w = world(g, flavour, slack=(method == 'add_node'))
                return [handle(w, w.gA)], gen(g, w)

            def body(self, h, pg, **kw):
                return h.call(getattr(C, method), pg, **kw)
            ensures = clauses
        Op.cost = cost
        Op.extra_targets = (TM + '_find_node', TM + '_find_all_nodes') + tuple(extra_targets)
        Op.__name__ = f'{name}_{flavour}'
        ops[name] = Op
        return Op

    # ---------------------------------------------------------------- update_node_property
    def c_upd_raises(pre, post):
        G0, gid, _ = graphs_of(pre.args[0])
        kw = pre.kwargs
        must_raise = Or(kw['prop_name'] == 'Class', Not(unique(G0, gid, kw['node_id'])))
        return Iff(Not(returned(post)), must_raise)

    def c_upd_effect(pre, post):
        G0, gid, _ = graphs_of(pre.args[0])
        G1, _, _ = graphs_of(post.args[0])
        kw = pre.kwargs
        if not returned(post):
            return unchanged(pre, post)
        return except_target(G0, G1, gid, kw['node_id'], lambda a0, a1: attrs_with(a0, a1, {kw['prop_name']: kw['prop_val']}))

    op('UpdateNodeProperty', 'update_node_property',
       lambda g, w: dict(node_id=g.atom('nid'), prop_name=g.pick(['Class', 'GraphID', 'Name', 'Extra'], 'property'), prop_val=g.atom('val')),
       {'raises_iff_class_or_no_unique_node': c_upd_raises, 'effect_exact_or_unchanged': c_upd_effect,
        'frame.other_graphs': lambda pre, post: True if pre.kwargs['prop_name'] == 'GraphID' else frame_other_graphs(pre, post)})

    # ---------------------------------------------------------------- unset_node_property
    def c_unset_raises(pre, post):
        G0, gid, _ = graphs_of(pre.args[0])
        kw = pre.kwargs
        p = kw['prop_name']
        if p in NO_UNSET or p == 'Class':
            return Not(returned(post))                      # identity properties can never be removed
        if G0 is None:
            return Not(returned(post))
        present = Or(*[And(is_target(G0, gid, n, kw['node_id']), p in a_keys(g_attrs(G0, n))) for n in g_nodes(G0)])
        return Iff(returned(post), And(unique(G0, gid, kw['node_id']), present))

    def c_unset_effect(pre, post):
        G0, gid, _ = graphs_of(pre.args[0])
        G1, _, _ = graphs_of(post.args[0])
        kw = pre.kwargs
        if not returned(post):
            return unchanged(pre, post)
        return except_target(G0, G1, gid, kw['node_id'], lambda a0, a1: attrs_with(a0, a1, {}, removed=(kw['prop_name'],)))

    op('UnsetNodeProperty', 'unset_node_property',
       lambda g, w: dict(node_id=g.atom('nid'), prop_name=g.pick(PROPS, 'property')),
       {'identity_kept__raises_iff': c_unset_raises, 'effect_exact_or_unchanged': c_unset_effect,
        'frame.other_graphs': frame_other_graphs})

    # ---------------------------------------------------------------- update_nodes_property (whole graph)
    def c_updall_raises(pre, post):
        G0, gid, _ = graphs_of(pre.args[0])
        return Iff(Not(returned(post)), Or(pre.kwargs['prop_name'] == 'Class', Not(nonempty(G0, gid))))

    def c_updall_effect(pre, post):
        G0, gid, _ = graphs_of(pre.args[0])
        G1, _, _ = graphs_of(post.args[0])
        kw = pre.kwargs
        if not returned(post):
            return unchanged(pre, post)
        if set(g_nodes(G0)) != set(g_nodes(G1)) or set(g_edges(G0)) != set(g_edges(G1)):
            return False
        out = []
        for n in g_nodes(G0):
            out.append(Ite(in_g(G0, n, gid), attrs_with(g_attrs(G0, n), g_attrs(G1, n), {kw['prop_name']: kw['prop_val']}),
                           dict_same(g_attrs(G0, n), g_attrs(G1, n))))
        out += [dict_same(g_eattrs(G0, a, b), g_eattrs(G1, a, b)) for a, b in g_edges(G0)]
        return And(*out)

    op('UpdateNodesProperty', 'update_nodes_property',
       lambda g, w: dict(prop_name=g.pick(['Class', 'Name', 'Extra', 'GraphID'], 'property'), prop_val=g.atom('val')),
       {'raises_iff_class_or_empty': c_updall_raises, 'all_and_only_this_graphs_nodes': c_updall_effect,
        'frame.other_graphs': lambda pre, post: True if pre.kwargs['prop_name'] == 'GraphID' else frame_other_graphs(pre, post)})

    # ---------------------------------------------------------------- update_node_properties (bulk)
    def gen_props(g, w):
        names = g.pick([['Extra', 'Name'], ['Name', 'Class'], []], 'props keys')
        return dict(node_id=g.atom('nid'), props=PDict({n: g.atom(f'v_{n}') for n in names}))

    def props_of(kw):
        p = kw['props']
        return {k: a_get(p, k) for k in a_keys(p)}

    op('UpdateNodeProperties', 'update_node_properties', gen_props,
       {'raises_iff_class_or_no_unique_node': lambda pre, post: Iff(Not(returned(post)), Or(
           'Class' in props_of(pre.kwargs), Not(unique(graphs_of(pre.args[0])[0], graphs_of(pre.args[0])[1], pre.kwargs['node_id'])))),
        'effect_exact_or_unchanged': lambda pre, post: unchanged(pre, post) if not returned(post) else except_target(
            graphs_of(pre.args[0])[0], graphs_of(post.args[0])[0], graphs_of(pre.args[0])[1], pre.kwargs['node_id'],
            lambda a0, a1: attrs_with(a0, a1, props_of(pre.kwargs))),
        'frame.other_graphs': frame_other_graphs})

    # ---------------------------------------------------------------- get_node_properties
    def c_getprops(pre, post):
        G0, gid, _ = graphs_of(pre.args[0])
        kw = pre.kwargs
        if not returned(post):
            return Not(unique(G0, gid, kw['node_id']))
        if G0 is None:
            return False
        labels, props = post.result[0], post.result[1]
        out = [unique(G0, gid, kw['node_id'])]
        for n in g_nodes(G0):
            a0 = g_attrs(G0, n)
            want = {k: a_get(a0, k) for k in a_keys(a0) if k != 'Class'}
            ok = And(len(as_list(labels)) == 1 and same_val(as_list(labels)[0], a_get(a0, 'Class')),
                     set(a_keys(props)) == set(want) and And(*[same_val(a_get(props, k), v) for k, v in want.items()]))
            out.append(Implies(is_target(G0, gid, n, kw['node_id']), ok))
        return And(*out)

    op('GetNodeProperties', 'get_node_properties', lambda g, w: dict(node_id=g.atom('nid')),
       {'returns_class_and_other_properties': c_getprops, 'pure': unchanged})

    # ---------------------------------------------------------------- listings
    def listing(cond_of):
        def c(pre, post):
            G0, gid, _ = graphs_of(pre.args[0])
            if not returned(post):
                return False
            exp = [] if G0 is None else [(And(in_g(G0, n, gid), cond_of(G0, n, pre.kwargs)), g_attr(G0, n, 'NodeID'))
                                         for n in g_nodes(G0)]
            return And(is_list(post.result), bag_eq(as_list(post.result), exp))
        return c

    op('NodesByClass', 'get_all_nodes_by_class', lambda g, w: dict(label=g.atom('label')),
       {'exactly_the_nodes_of_the_class': listing(lambda G, n, kw: eq(g_attr(G, n, 'Class'), kw['label'])), 'pure': unchanged})
    op('NodesByClassAndType', 'get_all_nodes_by_class_and_type', lambda g, w: dict(label=g.atom('label'), ntype=g.atom('ntype')),
       {'exactly_the_nodes_of_class_and_type': listing(lambda G, n, kw: And(eq(g_attr(G, n, 'Class'), kw['label']),
                                                                           eq(g_attr(G, n, 'Type'), kw['ntype']))),
        'pure': unchanged})

    def c_list_all(pre, post):
        G0, gid, _ = graphs_of(pre.args[0])
        if not returned(post):
            return Not(nonempty(G0, gid))
        exp = [(in_g(G0, n, gid), g_attr(G0, n, 'NodeID')) for n in g_nodes(G0)]
        return And(nonempty(G0, gid), bag_eq(as_list(post.result), exp))

    op('ListAllNodeIds', 'list_all_node_ids', lambda g, w: {}, {'all_node_ids_of_the_graph': c_list_all, 'pure': unchanged})

    def c_graph_exists(pre, post):
        G0, gid, _ = graphs_of(pre.args[0])
        return And(returned(post), Iff(is_true(post.result), nonempty(G0, gid)), Or(is_true(post.result), is_false(post.result)))

    op('GraphExists', 'graph_exists', lambda g, w: {}, {'true_iff_graph_has_nodes': c_graph_exists, 'pure': unchanged})

    def c_node_exists(pre, post):
        G0, gid, _ = graphs_of(pre.args[0])
        kw = pre.kwargs
        cnt = 0 if G0 is None else count(g_nodes(G0), lambda n: And(is_target(G0, gid, n, kw['node_id']),
                                                                    eq(g_attr(G0, n, 'Class'), kw['label'])))
        if not returned(post):
            return cnt > 1
        return And(Iff(is_true(post.result), eq(cnt, 1)), Or(is_true(post.result), is_false(post.result)), cnt <= 1)

    op('NodeExists', 'node_exists', lambda g, w: dict(node_id=g.atom('nid'), label=g.atom('label')),
       {'true_iff_one_node_of_id_and_class': c_node_exists, 'pure': unchanged})

    # ---------------------------------------------------------------- add_node
    def c_add_raises(pre, post):
        """the statement: a node id is unique within its graph WHATEVER the node's class"""
        G0, gid, _ = graphs_of(pre.args[0])
        kw = pre.kwargs
        exists_any = False if G0 is None else Or(*[is_target(G0, gid, n, kw['node_id']) for n in g_nodes(G0)])
        return Iff(Not(returned(post)), exists_any)

    def c_add_effect(pre, post):
        G0, gid, o0 = graphs_of(pre.args[0])
        G1, _, o1 = graphs_of(post.args[0])
        kw = pre.kwargs
        if not returned(post):
            return unchanged(pre, post)
        if G1 is None:
            return False
        old = set(g_nodes(G0)) if G0 is not None else set()
        new = [n for n in g_nodes(G1) if n not in old]
        if len(new) != 1 or not old <= set(g_nodes(G1)):
            return False
        n = new[0]
        want = {'GraphID': gid, 'Class': kw['label'], 'NodeID': kw['node_id']}
        if kw.get('props') is not None:
            want.update({k: a_get(kw['props'], k) for k in a_keys(kw['props'])})
        a1 = g_attrs(G1, n)
        out = [set(a_keys(a1)) == set(want), And(*[same_val(a_get(a1, k), v) for k, v in want.items()]) if set(a_keys(a1)) == set(want) else False,
               not any(n in e for e in g_edges(G1))]
        if G0 is not None:
            out.append(gm.graph_same(G0, G1, keep=lambda x: x in old))
        out.append(others_same(o0, o1))
        return And(*out)

    op('AddNode', 'add_node',
       lambda g, w: dict(node_id=g.atom('nid'), label=g.atom('label'),
                         props=g.pick([None, PDict({'Name': g.atom('nm'), 'Type': g.atom('ty')})], 'props')),
       {'raises_iff_id_in_use_whatever_the_class': c_add_raises, 'effect_exact_or_unchanged': c_add_effect,
        'frame.other_graphs': frame_other_graphs, 'internal_ids_distinct': lambda pre, post: distinct_keys(post)})

    # ---------------------------------------------------------------- delete_node
    def c_del_effect(pre, post):
        G0, gid, o0 = graphs_of(pre.args[0])
        G1, _, o1 = graphs_of(post.args[0])
        kw = pre.kwargs
        if not returned(post):
            return And(Not(unique(G0, gid, kw['node_id'])), unchanged(pre, post))
        out = [unique(G0, gid, kw['node_id'])]
        gone = [n for n in g_nodes(G0) if n not in set(g_nodes(G1))]
        if len(gone) != 1 or not set(g_nodes(G1)) <= set(g_nodes(G0)):
            return False
        out.append(is_target(G0, gid, gone[0], kw['node_id']))
        out.append(gm.graph_same(G0, G1, keep=lambda x: x != gone[0]))
        out.append(others_same(o0, o1))
        return And(*out)

    op('DeleteNode', 'delete_node', lambda g, w: dict(node_id=g.atom('nid')),
       {'removes_exactly_the_node_and_its_edges': c_del_effect, 'frame.other_graphs': frame_other_graphs})

    # ---------------------------------------------------------------- add_link
    def c_link_effect(pre, post):
        G0, gid, o0 = graphs_of(pre.args[0])
        G1, _, o1 = graphs_of(post.args[0])
        kw = pre.kwargs
        ok_ends = And(unique(G0, gid, kw['node_a']), unique(G0, gid, kw['node_b']))
        if not returned(post):
            return And(Not(ok_ends), unchanged(pre, post))
        if set(g_nodes(G0)) != set(g_nodes(G1)):
            return False
        out = [ok_ends, And(*[dict_same(g_attrs(G0, n), g_attrs(G1, n)) for n in g_nodes(G0)]), others_same(o0, o1)]
        want = {'Class': kw['rel']}
        if kw.get('props') is not None:
            want.update({k: a_get(kw['props'], k) for k in a_keys(kw['props'])})
        N = g_nodes(G0)
        for a in N:
            for b in N:
                sel = And(is_target(G0, gid, a, kw['node_a']), is_target(G0, gid, b, kw['node_b']))
                if sel is False:
                    continue
                e = gm.ekey(a, b)
                if e not in set(g_edges(G1)):
                    out.append(Not(sel))
                    continue
                rest_same = And(*[dict_same(g_eattrs(G0, x, y), g_eattrs(G1, x, y)) for (x, y) in g_edges(G0) if (x, y) != e])
                shape = set(g_edges(G1)) == set(g_edges(G0)) | {e}
                if e in set(g_edges(G0)):
                    tgt = attrs_with(g_eattrs(G0, a, b), g_eattrs(G1, a, b), want)
                else:
                    tgt = attrs_with(PDict(), g_eattrs(G1, a, b), want)
                out.append(Implies(sel, And(shape, rest_same, tgt)))
        return And(*out)

    op('AddLink', 'add_link',
       lambda g, w: dict(node_a=g.atom('na'), rel=g.atom('rel'), node_b=g.atom('nb'),
                         props=g.pick([None, PDict({'Name': g.atom('nm')})], 'props')),
       {'adds_or_updates_exactly_one_edge': c_link_effect, 'frame.other_graphs': frame_other_graphs}, cost=10)

    # ---------------------------------------------------------------- delete_graph
    def c_delgraph(pre, post):
        G0, gid, o0 = graphs_of(pre.args[0])
        G1, _, o1 = graphs_of(post.args[0])
        if not returned(post):
            return False
        out = [others_same(o0, o1)]
        if G0 is None:
            return And(*out, True if G1 is None else len(g_nodes(G1)) == 0)
        n1 = set(g_nodes(G1)) if G1 is not None else set()
        for n in g_nodes(G0):
            out.append(Iff(in_g(G0, n, gid), n not in n1))
        return And(*out)

    op('DeleteGraph', 'delete_graph', lambda g, w: {},
       {'removes_exactly_this_graphs_nodes': c_delgraph, 'frame.other_graphs': frame_other_graphs})

    # ---------------------------------------------------------------- link properties
    def link_sel(G0, gid, kw, a, b):
        return And(is_target(G0, gid, a, kw['node_a']), is_target(G0, gid, b, kw['node_b']))

    def link_ok(G0, gid, kw, need_kind=True):
        """both end nodes are uniquely found, the link exists (and is of the requested kind)"""
        if G0 is None:
            return False
        N = g_nodes(G0)
        alts = []
        for a in N:
            for b in N:
                if g_has_edge(G0, a, b):
                    c = link_sel(G0, gid, kw, a, b)
                    if need_kind:
                        c = And(c, eq(a_get(g_eattrs(G0, a, b), 'Class'), kw['kind']))
                    alts.append(c)
        return And(unique(G0, gid, kw['node_a']), unique(G0, gid, kw['node_b']), Or(*alts))

    def link_effect(change):
        def c(pre, post):
            G0, gid, o0 = graphs_of(pre.args[0])
            G1, _, o1 = graphs_of(post.args[0])
            kw = pre.kwargs
            if not returned(post):
                return unchanged(pre, post)
            if set(g_nodes(G0)) != set(g_nodes(G1)) or set(g_edges(G0)) != set(g_edges(G1)):
                return False
            out = [And(*[dict_same(g_attrs(G0, n), g_attrs(G1, n)) for n in g_nodes(G0)]), others_same(o0, o1)]
            for (x, y) in g_edges(G0):
                sel = Or(link_sel(G0, gid, kw, x, y), link_sel(G0, gid, kw, y, x))
                out.append(Ite(sel, change(g_eattrs(G0, x, y), g_eattrs(G1, x, y), kw), dict_same(g_eattrs(G0, x, y), g_eattrs(G1, x, y))))
            return And(*out)
        return c

    op('UpdateLinkProperty', 'update_link_property',
       lambda g, w: dict(node_a=g.atom('na'), node_b=g.atom('nb'), kind=g.atom('kind'), prop_name=g.pick(['Class', 'Name'], 'property'),
                         prop_val=g.atom('val')),
       {'raises_iff_class_or_no_such_link': lambda pre, post: Iff(returned(post), And(
           pre.kwargs['prop_name'] != 'Class', link_ok(graphs_of(pre.args[0])[0], graphs_of(pre.args[0])[1], pre.kwargs))),
        'effect_exact_or_unchanged': link_effect(lambda a0, a1, kw: attrs_with(a0, a1, {kw['prop_name']: kw['prop_val']})),
        'frame.other_graphs': frame_other_graphs}, cost=10)

    def gen_linkprops(g, w):
        names = g.pick([['Name'], ['Name', 'Class']], 'props keys')
        return dict(node_a=g.atom('na'), node_b=g.atom('nb'), kind=g.atom('kind'), props=PDict({n: g.atom(f'v_{n}') for n in names}))

    op('UpdateLinkProperties', 'update_link_properties', gen_linkprops,
       {'raises_iff_class_or_no_such_link': lambda pre, post: Iff(returned(post), And(
           'Class' not in props_of(pre.kwargs), link_ok(graphs_of(pre.args[0])[0], graphs_of(pre.args[0])[1], pre.kwargs))),
        'effect_exact_or_unchanged': link_effect(lambda a0, a1, kw: attrs_with(a0, a1, props_of(kw))),
        'frame.other_graphs': frame_other_graphs}, cost=10)

    op('UnsetLinkProperty', 'unset_link_property',
       lambda g, w: dict(node_a=g.atom('na'), node_b=g.atom('nb'), kind=g.atom('kind'), prop_name=g.pick(['Class', 'Name'], 'property')),
       {'class_kept__raises_iff': lambda pre, post: Iff(returned(post), And(
           pre.kwargs['prop_name'] != 'Class', link_ok(graphs_of(pre.args[0])[0], graphs_of(pre.args[0])[1], pre.kwargs))),
        'effect_exact_or_unchanged': link_effect(lambda a0, a1, kw: attrs_with(a0, a1, {}, removed=(kw['prop_name'],))),
        'frame.other_graphs': frame_other_graphs}, cost=10)

    def c_getlink(pre, post):
        G0, gid, _ = graphs_of(pre.args[0])
        kw = pre.kwargs
        ok = link_ok(G0, gid, kw, need_kind=False)
        if not returned(post):
            return Not(ok)
        out = [ok]
        for (x, y) in g_edges(G0):
            sel = Or(link_sel(G0, gid, kw, x, y), link_sel(G0, gid, kw, y, x))
            a0 = g_eattrs(G0, x, y)
            want = {k: a_get(a0, k) for k in a_keys(a0) if k != 'Class'}
            props = post.result[1]
            out.append(Implies(sel, And(same_val(post.result[0], a_get(a0, 'Class')), set(a_keys(props)) == set(want) and And(
                *[same_val(a_get(props, k), v) for k, v in want.items()]))))
        return And(*out)

    op('GetLinkProperties', 'get_link_properties', lambda g, w: dict(node_a=g.atom('na'), node_b=g.atom('nb')),
       {'returns_kind_and_other_properties': c_getlink, 'pure': unchanged}, cost=10)

    def c_unique(pre, post):
        G0, gid, _ = graphs_of(pre.args[0])
        kw = pre.kwargs
        anyone = False if G0 is None else Or(*[And(in_g(G0, n, gid), eq(g_attr(G0, n, 'Name'), kw['name']),
                                                   eq(g_attr(G0, n, 'Class'), kw['label'])) for n in g_nodes(G0)])
        return And(returned(post), Iff(is_true(post.result), Not(anyone)), Or(is_true(post.result), is_false(post.result)))

    # ---------------------------------------------------------------- find_matching_nodes / merge_nodes
    def make_two(name, method, gen, clauses, cost=10, cross_edges=False):
        class Op2(Contract):
            target = TP + method
            props = ('C05', 'C04', 'C14')
            bounded = gm.BOUND
            max_paths = 40000
            extra_targets = (TM + '_find_node', TM + '_find_all_nodes', TM + '_collect_nodeids')

            def inputs(self, g):
                # cross_edges: links between nodes of DIFFERENT graphs, as an earlier merge_nodes leaves them in the shared store
                w = gen_shared_world(g, extra_prop='Extra', cross_edges=True) if cross_edges and flavour == 'shared' \
                    else world(g, flavour)
                kw = gen(g, w)
                kw['other_graph'] = handle(w, w.gB)
                return [handle(w, w.gA)], kw

            def body(self, h, pg, **kw):
                return h.call(getattr(C, method), pg, **kw)
            ensures = clauses
        Op2.cost = cost
        Op2.__name__ = f'{name}_{flavour}'
        ops[name] = Op2
        return Op2

    def other_of(pre):
        hb = pre.kwargs['other_graph']
        G, gb, _ = graphs_of(hb)
        return G, gb

    def c_matching(pre, post):
        G0, gid, _ = graphs_of(pre.args[0])
        GB, gb = other_of(pre)
        if not returned(post):
            return Not(nonempty(G0, gid))      # an empty graph cannot be listed
        if G0 is None:
            return False
        res = as_list(post.result)
        if GB is None:
            return len(res) == 0
        out = []
        mine = [(in_g(G0, n, gid), g_attr(G0, n, 'NodeID')) for n in g_nodes(G0)]
        theirs = [(in_g(GB, n, gb), g_attr(GB, n, 'NodeID')) for n in g_nodes(GB)]
        for c, v in mine:
            inboth = Or(*[And(c2, eq(v, v2)) for c2, v2 in theirs])
            out.append(Implies(c, Iff(inboth, Or(*[eq(r, v) for r in res]))))
        for r in res:
            out.append(Or(*[And(c, eq(r, v)) for c, v in mine]))
        return And(*out)

    make_two('FindMatchingNodes', 'find_matching_nodes', lambda g, w: {}, {'ids_present_in_both_graphs': c_matching, 'pure': unchanged})

    if flavour == 'disjoint':
        make_two('MergeNodes', 'merge_nodes', lambda g, w: dict(node_id=g.atom('nid')),
                 {'documented_as_unsupported': lambda pre, post: raised(post, RuntimeError), 'nothing_changes': unchanged}, cost=3)
    else:
        def gen_merge(g, w):
            pol = g.pick([None, 'discard', 'overwrite', 'combine'], 'policy for Name')
            return dict(node_id=g.atom('nid'), merge_properties=None if pol is None else PDict({'Name': pol}))

        def c_merge(pre, post):
            G0, gid, _ = graphs_of(pre.args[0])
            G1, _, _ = graphs_of(post.args[0])
            GB, gb = other_of(pre)
            kw = pre.kwargs
            pre_ok = And(unique(G0, gid, kw['node_id']), unique(G0, gb, kw['node_id']))
            if not returned(post):
                # only calls outside the documented precondition may fail (or a policy naming a property one side lacks)
                return Or(Not(pre_ok), policy_key_missing(G0, gid, gb, kw))
            out = [pre_ok]
            N = g_nodes(G0)
            pol = kw['merge_properties']
            for u in N:
                for v in N:
                    if u == v:
                        continue
                    sel = And(is_target(G0, gid, u, kw['node_id']), is_target(G0, gb, v, kw['node_id']))
                    if sel is False:
                        continue
                    if set(g_nodes(G1)) != set(N) - {v}:
                        out.append(Not(sel))
                        continue
                    conds = []
                    # every edge of both nodes is kept (re-attached to the surviving node)
                    for w in N:
                        if w in (u, v):
                            continue
                        had = g_has_edge(G0, u, w) or g_has_edge(G0, v, w)
                        conds.append(g_has_edge(G1, u, w) == had)
                        if had and g_has_edge(G1, u, w):
                            src = g_eattrs(G0, u, w) if g_has_edge(G0, u, w) else g_eattrs(G0, v, w)
                            conds.append(same_val(a_get(g_eattrs(G1, u, w), 'Class'), a_get(src, 'Class')))
                    # edges not touching u or v, and all other nodes, are as before
                    conds.append(gm.graph_same(G0, G1, keep=lambda x: x not in (u, v)))
                    # properties by policy
                    a0, b0, a1 = g_attrs(G0, u), g_attrs(G0, v), g_attrs(G1, u)
                    want = {}
                    for k in a_keys(a0):
                        p = None if pol is None or k not in a_keys(pol) else a_get(pol, k)
                        if p is None or p == 'discard':
                            want[k] = a_get(a0, k)
                        elif p == 'overwrite':
                            want[k] = a_get(b0, k)
                        elif p == 'combine':
                            want[k] = [a_get(a0, k), a_get(b0, k)]
                    conds.append(set(a_keys(a1)) == set(want) and And(*[same_val(a_get(a1, k), x) for k, x in want.items()]))
                    out.append(Implies(sel, And(*conds)))
            return And(*out)

        def policy_key_missing(G0, gid, gb, kw):
            pol = kw['merge_properties']
            if pol is None or a_get(pol, 'Name') == 'discard':
                return False
            return Or(*[And(is_target(G0, gb, v, kw['node_id']), 'Name' not in a_keys(g_attrs(G0, v))) for v in g_nodes(G0)],
                      False)

        make_two('MergeNodes', 'merge_nodes', gen_merge,
                 {'keeps_all_edges_and_applies_policy': c_merge, 'frame.third_parties': lambda pre, post: True}, cost=30,
                 cross_edges=True)

    op('CheckNodeUnique', 'check_node_unique', lambda g, w: dict(label=g.atom('label'), name=g.atom('name')),
       {'true_iff_no_node_of_class_and_name': c_unique, 'pure': unchanged})
    return ops
