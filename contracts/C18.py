"""
C18 -- Instance sizing is sufficient and minimal; components match the catalogue.

Sizing: `candidates.sort()` uses the *partial* order Capacities.__lt__, for which no contract of list.sort applies, so the
function is decided for ALL requests differently: (1) from the real AST, z3 proves the cell lemma -- the filter predicate of
every catalogue entry (the real lambda, symbolically executed) takes the same value on two requests that lie in the same cell
of the grid cut by the catalogue's own values, and `cap` is read nowhere else in the function (frame check on the AST);
(2) the real function is then executed on one representative per cell (the complete finite quotient) and compared with the
brute-force Pareto oracle.  Components: the real generate_component is executed symbolically for every catalogue entry with
symbolic names, ids and labels.
"""
import ast
import itertools
import json
import os
import time

import z3

from pyvc import loader
from pyvc.harness import Contract, Gen, snapshot
from pyvc.interp import Ctx, Shared, Interp, Frame, PyRaise
from pyvc.values import PObj, PList, PDict, Sym, is_sym
from pyvc.spec import (And, Or, Not, Implies, Iff, forall, exists, eq, same, fld, has, keys, items, is_list, returned, raised,
                       fields_same, same_obj, isinst, is_none, Ite, length, is_true, is_false, is_bool, is_obj, fullmatch,
                       is_str)
from fim.slivers.instance_catalog import InstanceCatalog
from fim.slivers.capacities_labels import Capacities, Labels

T = 'fim.slivers.instance_catalog:'
DIMS = ('core', 'ram', 'disk')


def _res(name, target, clauses, functions, trusted=(), faults=(), paths=1):
    return dict(contract=name, target=target, clauses=clauses, paths=paths, feasible_paths=paths, unsupported=[],
                faults=list(faults), crosscheck=dict(compared=0, mismatches=[]), functions=functions, trusted=list(trusted),
                solver_calls=0, solver_s=0)


def _st(ok, reason='', witness=None, solver_s=0.0, backend='z3', paths=1):
    return dict(status='discharged' if ok else 'violated', paths=paths, solver_s=solver_s, backend=backend,
                witness=witness, confirmed=bool(witness) and not ok, reason=reason)


def catalogue():
    path = os.path.join(os.path.dirname(loader.func_info(InstanceCatalog.map_capacities_to_instance)['file']), 'data',
                        'instance_sizes.json')
    return json.load(open(path))


def oracle_ok(cat, req, name):
    """the statement: sufficient if any size is, no other sufficient size <= in every dimension, largest otherwise"""
    if name not in cat:
        return False, f'{name!r} is not a catalogue size'
    sat = {k: v for k, v in cat.items() if all(v.get(d, 0) >= req[d] for d in DIMS)}
    r = cat[name]
    if sat:
        if name not in sat:
            return False, f'{name} does not satisfy the request although {len(sat)} sizes do (e.g. {next(iter(sat))})'
        for k, v in sat.items():
            if all(v.get(d, 0) <= r.get(d, 0) for d in DIMS) and any(v.get(d, 0) < r.get(d, 0) for d in DIMS):
                return False, f'{k} {v} also satisfies the request and is smaller-or-equal in every dimension than {name} {r}'
        return True, ''
    # nothing satisfies: the largest size, which must dominate the catalogue
    for k, v in cat.items():
        if any(v.get(d, 0) > r.get(d, 0) for d in DIMS):
            return False, f'no size satisfies the request; {name} {r} returned but {k} {v} is larger in some dimension'
    return True, ''


class Sizing(Contract):
    target = T + 'InstanceCatalog.map_capacities_to_instance'
    props = ('C18',)
    cost = 20

    @classmethod
    def run_custom(cls, tier, seed):
        t0 = time.time()
        fn = InstanceCatalog.map_capacities_to_instance
        info = loader.func_info(fn)
        functions = {info['qualname']: dict(file=info['file'], first=info['first'], last=info['last'], sha=info['sha'])}
        for f in (InstanceCatalog.get_instance_capacities, InstanceCatalog.list_instances, Capacities.__lt__, Capacities.__eq__):
            i = loader.func_info(f)
            functions[i['qualname']] = dict(file=i['file'], first=i['first'], last=i['last'], sha=i['sha'])
        clauses = {}
        node = info['node']
        cat = catalogue()
        # ---- frame: `cap` is read only by the leading assert and inside the filter lambda
        lambdas = [n for n in ast.walk(node) if isinstance(n, ast.Lambda)]
        filt = None
        for n in ast.walk(node):
            if isinstance(n, ast.Call) and isinstance(n.func, ast.Name) and n.func.id == 'filter' and n.args \
                    and isinstance(n.args[0], ast.Lambda):
                filt = n
        cap_reads = [n for n in ast.walk(node) if isinstance(n, ast.Name) and n.id == 'cap']
        inside = set()
        if filt is not None:
            inside = {id(n) for n in ast.walk(filt.args[0])}
        asserts = {id(n) for s in node.body if isinstance(s, ast.Assert) for n in ast.walk(s)}
        stray = [n.lineno for n in cap_reads if id(n) not in inside and id(n) not in asserts]
        ok = filt is not None and not stray and len(lambdas) == 1
        clauses['frame.request_read_only_by_filter'] = _st(ok, '' if ok else f'cap read outside the filter lambda at lines {stray} '
                                                           f'(filter call found: {filt is not None}, lambdas: {len(lambdas)})',
                                                           backend='ast')
        # the filtered collection must be the catalogue's values (list(c.values())), the request must not be mutated
        writes = [n.lineno for n in ast.walk(node) if isinstance(n, (ast.Attribute, ast.Subscript)) and isinstance(n.ctx, ast.Store)]
        clauses['frame.no_writes'] = _st(not writes, '' if not writes else f'stores at lines {writes}', backend='ast')
        # ---- cell lemma: for every entry, the real lambda's value is the same for two requests in the same cell
        thresholds = {d: sorted({v.get(d, 0) for v in cat.values()}) for d in DIMS}
        t1 = time.time()
        lemma_ok, lemma_bad, nq = True, '', 0
        if filt is not None:
            shared = Shared()
            ctx = Ctx([], shared)
            I = Interp(ctx)
            g = Gen(ctx)
            capA = PObj(Capacities, {f: g.int(f'a.{f}', lo=0) for f in Capacities().__dict__})
            capB = PObj(Capacities, {f: g.int(f'b.{f}', lo=0) for f in Capacities().__dict__})
            same_cell = []
            for d in DIMS:
                for v in thresholds[d]:
                    same_cell.append((fld(capA, d).t <= v) == (fld(capB, d).t <= v))
            ctx.assume(z3.And(*same_cell))
            seen = set()
            for name, ent in cat.items():
                key = tuple(ent.get(d, 0) for d in DIMS)
                if key in seen:
                    continue
                seen.add(key)
                x = PObj(Capacities, dict(Capacities(**ent).__dict__))
                vals = []
                for capx in (capA, capB):
                    fr = Frame(fn.__globals__, InstanceCatalog, None, fn)
                    fr.locals['cap'] = capx
                    from pyvc.values import Closure
                    clo = Closure(filt.args[0], fr, fn.__globals__, InstanceCatalog)
                    clo.defaults, clo.kwdefaults = [], {}
                    vals.append(I.truthy(I.call(clo, [x], {})))
                a, b = vals
                nq += 1
                diff = z3.Xor(a.t if is_sym(a) else z3.BoolVal(a), b.t if is_sym(b) else z3.BoolVal(b))
                if ctx.check(diff) != z3.unsat:
                    lemma_ok = False
                    lemma_bad = f'entry {name} {ent}: filter value differs inside a cell'
                    break
        else:
            lemma_ok, lemma_bad = False, 'no filter(lambda ...) call found'
        clauses['cell.lemma'] = _st(lemma_ok, lemma_bad, solver_s=time.time() - t1, paths=nq)
        # ---- the finite quotient, executed on the real function
        ic = InstanceCatalog()
        reps = {d: sorted(set(thresholds[d] + [thresholds[d][-1] + 1, 0])) for d in DIMS}
        n, bad, wit = 0, '', None
        for c, r, dk in itertools.product(reps['core'], reps['ram'], reps['disk']):
            req = dict(core=c, ram=r, disk=dk)
            n += 1
            try:
                name = ic.map_capacities_to_instance(cap=Capacities(**req))
            except Exception as e:   # noqa
                bad, wit = f'raised {e!r}', dict(request=req)
                break
            ok1, why = oracle_ok(cat, req, name)
            if ok1:
                got = ic.get_instance_capacities(instance_type=name)
                if got is None or any(getattr(got, d) != cat[name].get(d, 0) for d in DIMS):
                    ok1, why = False, f'name {name} and its capacities disagree: {got}'
            if not ok1:
                bad, wit = why, dict(request=req, returned=name)
                break
        clauses['quotient.pareto_exhaustive'] = _st(not bad, bad, witness=wit, backend='native exhaustive run', paths=n)
        # thorough: the +/-1 grid of the statement as well (redundant given the lemma; cheap confidence)
        if tier == 'thorough' and not bad:
            grid = {d: sorted({max(0, v + e) for v in thresholds[d] for e in (-1, 0, 1)}) for d in DIMS}
            m, bad2, wit2 = 0, '', None
            for c, r, dk in itertools.product(grid['core'], grid['ram'], grid['disk']):
                req = dict(core=c, ram=r, disk=dk)
                m += 1
                name = ic.map_capacities_to_instance(cap=Capacities(**req))
                ok1, why = oracle_ok(cat, req, name)
                if not ok1:
                    bad2, wit2 = why, dict(request=req, returned=name)
                    break
            clauses['grid.plus_minus_one'] = _st(not bad2, bad2, witness=wit2, backend='native exhaustive run', paths=m)
        # ---- listing: exactly the catalogue, names and capacities agree
        li = ic.list_instances()
        ok = set(li.keys()) == set(cat.keys()) and all(
            all(getattr(li[k], d) == cat[k].get(d, 0) for d in DIMS) and li[k] == ic.get_instance_capacities(instance_type=k)
            for k in cat) and ic.get_instance_capacities(instance_type='no.such.size') is None
        clauses['list.exact'] = _st(ok, '' if ok else 'list_instances / get_instance_capacities disagree with the catalogue file',
                                    backend='native exhaustive run', paths=len(cat))
        r = _res(cls.__name__, cls.target, clauses, functions, trusted=[
            'sizing: the cell lemma (z3, from the real filter lambda) + frame check (AST) reduce all requests to the finite '
            'quotient, which is then executed exhaustively on the real function; requests are Capacities with integer fields >= 0',
            'the catalogue file fim/slivers/data/instance_sizes.json is the one the library loads'], paths=n)
        r['exhaustive'] = True
        r['wall_s'] = round(time.time() - t0, 2)
        return r


CONTRACTS = [Sizing]


# =========================================================================================== components
from fim.slivers.component_catalog import ComponentCatalog, ComponentModelTypeMap, CatalogException
from fim.slivers import component_catalog as _cc
from fim.slivers.attached_components import ComponentSliver, ComponentType
from fim.slivers.interface_info import InterfaceSliver, InterfaceType
from fim.slivers.network_service import NetworkServiceSliver, ServiceType, NSLayer
from pyvc.spec import values, concat
from contracts.common import SET_NAME, valid_name

CT = 'fim.slivers.component_catalog:'


def component_catalogue():
    path = os.path.join(os.path.dirname(loader.func_info(ComponentCatalog.generate_component)['file']), 'data',
                        'component_catalog.json')
    return json.load(open(path))


CAT = component_catalogue()
SAFE_NAME = r'[\w\-\.]{2,40}'      # names valid for components, interfaces and services alike (see the NAME_REGEX tables)


def expected_kind(ctype):
    return {'SmartNIC': InterfaceType.DedicatedPort, 'FPGA': InterfaceType.DedicatedPort,
            'SharedNIC': InterfaceType.SharedPort}.get(ctype)


def make_component_contracts():
    out = []
    for idx, ent in enumerate(CAT):
        ports = list((ent.get('Interfaces') or {}).keys())

        class Gen(Contract):
            target = CT + 'ComponentCatalog.generate_component'
            props = ('C18',)
            _idx = idx
            _ent = ent
            _ports = ports
            cost = 3 ** len(ports)
            summaries = SET_NAME

            def inputs(self, g):
                ent, ports = self._ent, self._ports
                sel = ['type+model'] + [f'also{j}' for j in range(len(ent.get('AlsoModels') or []))] + ['model_type']
                mode = g.pick(sel, 'how the model is named')
                kw = {}
                if mode == 'model_type':
                    mt = [k for k, v in ComponentModelTypeMap.items() if v is _cc.ComponentModelTypeMap[k] and
                          v['Model'] == ent['Model'] and v['Type'] == ent['Type']]
                    kw['model_type'] = mt[0]
                else:
                    kw['ctype'] = ComponentType[ent['Type']]
                    kw['model'] = ent['Model'] if mode == 'type+model' else ent['AlsoModels'][int(mode[4:])]
                name = g.str('name')
                kw['name'] = name
                if g.choice(2, 'parent name given?') == 0:
                    kw['parent_name'] = g.str('parent')
                if g.choice(2, 'service id given?') == 0:
                    kw['ns_node_id'] = g.atom('nsid')
                if ports:
                    what = g.pick(['none', 'labels', 'ids+labels', 'ids+labels wrong length'], 'ids / labels')
                    n = len(ports) + (1 if what.endswith('wrong length') else 0)
                    if what != 'none':
                        labs = []
                        for i in range(n):
                            form = g.pick(['no bdf', 'scalar bdf', 'bdf list of 2'], f'labels[{i}]')
                            lab = g.obj(Labels, **{f: None for f in Labels().__dict__})
                            if form == 'scalar bdf':
                                lab.d.e['bdf'][1] = g.text(f'bdf{i}')
                            elif form == 'bdf list of 2':
                                lab.d.e['bdf'][1] = PList([g.text(f'bdf{i}a'), g.text(f'bdf{i}b')])
                            labs.append(lab)
                        kw['interface_labels'] = PList(labs)
                    if what.startswith('ids'):
                        kw['interface_node_ids'] = PList([g.atom(f'id{i}') for i in range(n)])
                return [g.obj(ComponentCatalog)], kw

            def body(self, h, cc, **kw):
                return h.call(ComponentCatalog.generate_component, cc, **kw)

            # ---- clauses
            @staticmethod
            def _wrong(pre):
                ids = pre.kwargs.get('interface_node_ids')
                return ids is not None and len(items(ids)) != len(Gen._ports_of(pre))

            @staticmethod
            def _ports_of(pre):
                return pre.ports

            def _clauses(ent=ent, ports=ports):
                def wrong(pre):
                    ids = pre.kwargs.get('interface_node_ids')
                    return ids is not None and len(items(ids)) != len(ports)

                def names_valid(pre):
                    """the derived names are acceptable to the sliver classes (precondition for a component to come back)"""
                    nm, pn = pre.kwargs['name'], pre.kwargs.get('parent_name')
                    suffix = '-l2p4' if ent['Type'] == 'FPGA' else '-l2ovs'
                    out = [valid_name(ComponentSliver, nm)]
                    for p in ports:
                        out.append(valid_name(InterfaceSliver, concat(nm, '-', p)))
                    if ports:
                        out.append(valid_name(NetworkServiceSliver, concat(nm, suffix) if pn is None else concat(pn, '-', nm, suffix)))
                    return And(*out)

                def c_returns(pre, post):
                    if raised(post, ValueError):
                        return Not(names_valid(pre))          # only an unacceptable name is refused this way
                    if wrong(pre):
                        return raised(post, RuntimeError)
                    return And(returned(post), isinst(post.result, ComponentSliver), names_valid(pre))

                def c_fields(pre, post):
                    if wrong(pre) or not returned(post):
                        return True
                    cs = post.result
                    return And(same(fld(cs, 'resource_name'), pre.kwargs['name']), fld(cs, 'resource_model') == ent['Model'],
                               fld(cs, 'resource_type') is ComponentType[ent['Type']], fld(cs, 'details') == ent['Details'],
                               (fld(cs, 'network_service_info') is None) == (not ports))

                def the_ns(cs):
                    nss = values(fld(fld(cs, 'network_service_info'), 'network_services'))
                    return nss[0] if len(nss) == 1 else None

                def c_service(pre, post):
                    if wrong(pre) or not returned(post) or not ports:
                        return True
                    ns = the_ns(post.result)
                    if ns is None:
                        return False
                    suffix = '-l2p4' if ent['Type'] == 'FPGA' else '-l2ovs'
                    nm = pre.kwargs['name']
                    pn = pre.kwargs.get('parent_name')
                    want = concat(nm, suffix) if pn is None else concat(pn, '-', nm, suffix)
                    nsid = pre.kwargs.get('ns_node_id')
                    keyd = keys(fld(fld(post.result, 'network_service_info'), 'network_services'))
                    return And(eq(fld(ns, 'resource_name'), want), eq(keyd[0], want),
                               fld(ns, 'resource_type') is (ServiceType.P4 if ent['Type'] == 'FPGA' else ServiceType.OVS),
                               fld(ns, 'layer') is NSLayer.L2,
                               True if nsid is None else eq(fld(ns, 'node_id'), nsid), is_str(fld(ns, 'node_id')))

                def ifaces(cs):
                    ns = the_ns(cs)
                    return fld(fld(ns, 'interface_info'), 'interfaces')

                def c_ifaces_exact(pre, post):
                    if wrong(pre) or not returned(post) or not ports:
                        return True
                    d = ifaces(post.result)
                    ks, vs = keys(d), values(d)
                    if len(ks) != len(ports):
                        return False
                    return And(*[And(eq(ks[i], concat(pre.kwargs['name'], '-', p)),
                                     eq(fld(vs[i], 'resource_name'), concat(pre.kwargs['name'], '-', p)))
                                 for i, p in enumerate(ports)])

                def c_speed_kind_units(pre, post):
                    if wrong(pre) or not returned(post) or not ports:
                        return True
                    vs = values(ifaces(post.result))
                    if len(vs) != len(ports):
                        return False
                    labs = pre.kwargs.get('interface_labels')
                    out = []
                    for i, p in enumerate(ports):
                        isl = vs[i]
                        cap = fld(isl, 'capacities')
                        bw = 0 if ent['Type'] == 'SharedNIC' else int(ent['Interfaces'][p])
                        bdf = None if labs is None else fld(items(labs)[i], 'bdf')
                        units = len(items(bdf)) if is_list(bdf) else 1
                        out.append(And(fld(isl, 'resource_type') is expected_kind(ent['Type']), eq(fld(cap, 'bw'), bw),
                                       eq(fld(cap, 'unit'), units)))
                    return And(*out)

                def c_placement(pre, post):
                    if wrong(pre) or not returned(post) or not ports:
                        return True
                    vs = values(ifaces(post.result))
                    if len(vs) != len(ports):
                        return False
                    ids = pre.kwargs.get('interface_node_ids')
                    labs = pre.kwargs.get('interface_labels')
                    out = []
                    for i, p in enumerate(ports):
                        isl = vs[i]
                        if ids is not None:
                            out.append(eq(fld(isl, 'node_id'), items(ids)[i]))
                        else:
                            out.append(is_str(fld(isl, 'node_id')))
                        lab = fld(isl, 'labels')
                        if labs is not None:
                            given = items(pre.kwargs['interface_labels'])[i]
                            bdf = fld(given, 'bdf')
                            out.append(And(same_obj(lab, items(post.kwargs['interface_labels'])[i]), eq(fld(lab, 'bdf'), bdf),
                                           eq(fld(lab, 'local_name'), [p] * len(items(bdf)) if is_list(bdf) else p)))
                        else:
                            out.append(And(isinst(lab, Labels), fld(lab, 'local_name') == p, fld(lab, 'bdf') is None))
                    # ids are pairwise different when generated
                    return And(*out)
                return {'returns_or_rejects_wrong_length': c_returns, 'component.type_model_details': c_fields,
                        'service.name_type_layer_id': c_service, 'interfaces.exactly_the_catalogued_ports': c_ifaces_exact,
                        'interfaces.speed_kind_units': c_speed_kind_units, 'interfaces.ids_and_labels_placement': c_placement}
            ensures = _clauses()
        Gen.__name__ = 'Component_%02d_%s_%s' % (idx, ent['Type'], ent['Model'].replace('-', '_').replace(' ', '_'))
        out.append(Gen)
    return out


class CatalogListing(Contract):
    """the combined type-model enumeration lists exactly the catalogue entries; search/details agree with the file"""
    target = CT + 'ComponentCatalog.populate_catalog_models_and_types'
    props = ('C18',)

    @classmethod
    def run_custom(cls, tier, seed):
        import re
        functions = {}
        for f in (ComponentCatalog.populate_catalog_models_and_types, ComponentCatalog.search_catalog,
                  ComponentCatalog.component_details):
            i = loader.func_info(f)
            functions[i['qualname']] = dict(file=i['file'], first=i['first'], last=i['last'], sha=i['sha'])
        cc = ComponentCatalog()
        enum_cls = _cc.ComponentModelType
        tm = _cc.ComponentModelTypeMap
        clauses = {}
        names = ['_'.join(re.sub(r'[ -]', '_', x) for x in (e['Type'], e['Model'])) for e in CAT]
        ok = [m.name for m in enum_cls] == names and len(tm) == len(CAT) and all(
            tm[enum_cls[n]] == e for n, e in zip(names, CAT)) and len(set(names)) == len(names)
        clauses['enumeration.exactly_the_entries'] = _st(ok, '' if ok else f'{[m.name for m in enum_cls]} vs {names}',
                                                         backend='native exhaustive run', paths=len(CAT))
        bad = ''
        for t in ComponentType:
            want = {e['Model']: e['Details'] for e in CAT if e['Type'] == str(t)}
            try:
                got = dict(cc.search_catalog(ctype=t))
            except CatalogException:
                got = {}
            if got != want:
                bad = f'search_catalog({t}) = {got} expected {want}'
        for e in CAT:
            last = [x for x in CAT if x['Model'] == e['Model']][-1]
            if cc.component_details(model=e['Model']) != last['Details']:
                bad = f'component_details({e["Model"]})'
        clauses['search_and_details.agree_with_catalogue'] = _st(not bad, bad, backend='native exhaustive run',
                                                                 paths=len(CAT) + len(list(ComponentType)))
        r = _res(cls.__name__, cls.target, clauses, functions, trusted=['component catalogue file is the one the library loads'],
                 paths=len(CAT))
        return r


CONTRACTS = [Sizing, CatalogListing] + make_component_contracts()
for _c in CONTRACTS:
    globals()[_c.__name__] = _c
