"""
C02 -- Sliver <-> graph / dictionary / JSON conversion preserves every settable field.

(1) flat round trip, per sliver kind and PER SETTABLE PROPERTY: a sliver with that property set to a typed symbolic value is
    mapped by the real *_sliver_to_graph_properties_dict and rebuilt by *_sliver_from_graph_properties_dict; the rebuilt
    property equals the original, every other property is at its default, and the graph key written is the one the
    property table names (so unset_property removes what set_property wrote).
(2) element level: on a model element built through the real API, set_property / get_property / unset_property for the
    listed properties: reads back equal, and after unsetting reads as absent.
Properties whose values need modules the engine does not model (management_ip: ipaddress) are listed as not covered.
"""
import datetime as _dt

import z3

from pyvc.harness import Contract
from pyvc.spec import (And, Or, Not, Implies, Iff, eq, same, returned, raised, fld, has, keys, values, items, is_none, isinst)
from pyvc.values import PObj, PDict, PList, PSet, JsonText, is_sym
from contracts.common import SET_NAME, valid_name
from contracts import topo
from contracts.topo import CMT
from fim.graph.abc_property_graph import ABCPropertyGraph as APG
from fim.slivers.network_node import NodeSliver, NodeType
from fim.slivers.attached_components import ComponentSliver, ComponentType
from fim.slivers.network_service import NetworkServiceSliver, ServiceType, NSLayer, MirrorDirection
from fim.slivers.interface_info import InterfaceSliver, InterfaceType
from fim.slivers.network_link import NetworkLinkSliver, LinkType
from fim.slivers.capacities_labels import Capacities, Labels, CapacityHints, ReservationInfo, StructuralInfo, Location, Flags
from fim.slivers.tags import Tags
from fim.slivers.json_data import UserData, MeasurementData, LayoutData
from fim.slivers.gateway import Gateway
from fim.slivers.path_info import PathInfo, ERO, Path, PathRepresentationType
from fim.slivers.delegations import Delegations, Delegation, DelegationType, DelegationFormat
from fim.user.topology import ExperimentTopology

LEVEL = 'other'
import os as _os
THOROUGH = _os.environ.get('VERIF_TIER_ACTIVE') == 'thorough'
TG = 'fim.graph.abc_property_graph:ABCPropertyGraph.'
KINDS = {
    'node': (NodeSliver, APG.node_sliver_to_graph_properties_dict, APG.node_sliver_from_graph_properties_dict, NodeType),
    'component': (ComponentSliver, APG.component_sliver_to_graph_properties_dict, APG.component_sliver_from_graph_properties_dict, ComponentType),
    'service': (NetworkServiceSliver, APG.network_service_sliver_to_graph_properties_dict, APG.network_service_sliver_from_graph_properties_dict, ServiceType),
    'interface': (InterfaceSliver, APG.interface_sliver_to_graph_properties_dict, APG.interface_sliver_from_graph_properties_dict, InterfaceType),
    'link': (NetworkLinkSliver, APG.link_sliver_to_graph_properties_dict, APG.link_sliver_from_graph_properties_dict, LinkType),
}
NOT_COVERED = {'management_ip', 'maintenance_info', 'network_service_info', 'image_type', 'capacity_delegations', 'label_delegations'}
STR_PROPS = {'model', 'details', 'site', 'allocation_constraints', 'service_endpoint', 'controller_url', 'mirror_port', 'mirror_vlan',
             'boot_script', 'technology'}


def F(cls):
    return dict(cls().__dict__)


def value_for(g, cls, p, tenum):
    """typed symbolic value of settable property p (and the value the rebuilt sliver is expected to carry)"""
    if p == 'boot_script':
        s = g.str('v_boot_script')
        g.assume(z3.Length(s.t) < cls.BOOST_SCRIPT_SIZE)        # the setter's own precondition
        return s
    if p in STR_PROPS:
        return g.str(f'v_{p}')
    if p == 'name':
        s = g.str('v_name')
        g.assume(valid_name(cls, s))
        return s
    if p == 'type':
        return g.pick(list(tenum)[:3], 'type value')
    if p in ('capacities', 'capacity_allocations'):
        return PObj(Capacities, {**{k: 0 for k in F(Capacities)}, 'core': g.int('v_core', lo=0), 'ram': g.int('v_ram', lo=0)})
    if p in ('labels', 'label_allocations', 'peer_labels'):
        return PObj(Labels, {**{k: None for k in F(Labels)}, 'local_name': g.str('v_lname'), 'instance': g.U('v_inst', ('none', 'str'))})
    if p == 'capacity_hints':
        return PObj(CapacityHints, {'instance_type': g.str('v_hint')})
    if p == 'reservation_info':
        return PObj(ReservationInfo, {'reservation_id': g.str('v_rid'), 'reservation_state': g.U('v_rs', ('none', 'str')), 'error_message': None})
    if p == 'structural_info':
        return PObj(StructuralInfo, {'sub_graph_id': g.U('v_sg', ('none', 'str')), 'parent_graph_id': g.str('v_pg'), 'adm_graph_ids': None})
    if p == 'location':
        return PObj(Location, {'postal': g.U('v_postal', ('none', 'str')), 'lat': g.real('v_lat'), 'lon': g.real('v_lon')})
    if p == 'flags':
        return PObj(Flags, {k: g.bool(f'v_flag_{k}') for k in F(Flags)})
    if p == 'tags':
        return PObj(Tags, {'tags': PList(['t1', 't2'])})
    if p in ('mf_data', 'user_data', 'layout_data'):
        c = {'mf_data': MeasurementData, 'user_data': UserData, 'layout_data': LayoutData}[p]
        # a nested document; a top-level STRING whose content looks like JSON (decoding it once more changes the value); a
        # document with non-default spacing (re-encoding it changes the text)
        return PObj(c, {'_data': g.pick(['{"k": [1, 2, {"z": null}]}', '"42"', '{"a":1}'], 'stored JSON text')})
    if p == 'node_map':
        return (g.str('v_nm_graph'), g.str('v_nm_node'))
    if p == 'stitch_node':
        return g.pick([True, False], 'stitch flag')
    if p == 'image_ref':
        return g.str('v_image_ref')
    if p == 'layer':
        return g.pick(list(NSLayer), 'layer')
    if p == 'mirror_direction':
        return g.pick(list(MirrorDirection), 'direction')
    if p == 'gateway':
        lab = PObj(Labels, {**{k: None for k in F(Labels)}, 'ipv4_subnet': '10.0.0.0/24', 'ipv4': '10.0.0.1'})
        return PObj(Gateway, {'lab': lab})
    if p in ('ero', 'path_info'):
        c = ERO if p == 'ero' else PathInfo
        f = {'type': PathRepresentationType.Graph, 'payload': g.str('v_path_graph')}
        if c is ERO:
            f['strict'] = g.bool('v_strict')
        return PObj(c, f)
    raise KeyError(p)


def unset_field(v):
    """JSONField.to_json's documented notion of a field without a value: None or an integer 0 (False included)"""
    if v is None:
        return True
    if isinstance(v, bool):
        return not v
    if isinstance(v, int):
        return v == 0
    if is_sym(v):
        if v.k == 'int':
            return eq(v, 0)
        if v.k == 'bool':
            return Not(v)
        if v.k == 'U':
            return is_none(v)
    return False


def empty_json_field(o):
    """an object of a JSON-typed field class none of whose fields has a value: documented to be stored as the empty string
    and read back as 'no value'"""
    from fim.slivers.capacities_labels import JSONField
    cls_ = o.cls if isinstance(o, PObj) else type(o)
    if not (isinstance(cls_, type) and issubclass(cls_, JSONField)):
        return False
    names = list(o.d.e) if isinstance(o, PObj) else list(o.__dict__)
    return And(*[unset_field(fld(o, k)) for k in names])


def same_or_empty(orig, back):
    if orig is None:
        return back is None
    e = empty_json_field(orig)
    if e is False:
        return eq(back, orig)
    # an object without any value may come back as itself (Flags keeps its false entries) or as 'no value'
    return Or(And(e, back is None), back is not None and eq(back, orig))


def make_flat(kind):
    cls, to_d, from_d, tenum = KINDS[kind]
    settable = [p for p in cls.list_properties() if p not in NOT_COVERED]

    class Flat(Contract):
        target = TG + to_d.__name__
        extra_targets = (TG + from_d.__name__, TG + 'base_sliver_to_graph_properties_dict',
                         TG + 'set_base_sliver_properties_from_graph_properties_dict')
        props_ = settable
        props = ('C02',)
        bounded = 'a named sliver with one further settable property set at a time (every PAIR of properties in the thorough tier); management_ip, maintenance_info and delegations not covered'
        summaries = SET_NAME
        max_paths = 20000
        cost = 20

        def inputs(self, g):
            p = g.pick(self.props_, 'property that is set')
            f = F(cls)
            # every sliver the library builds is named (from_dict passes the stored Name to set_name)
            f['resource_name'] = 'sliver1'
            chosen = [p]
            if THOROUGH:
                # thorough tier: every PAIR of settable properties
                q = g.pick([x for x in self.props_ if x > p] or [p], 'second property that is set')
                if q != p:
                    chosen.append(q)
            for x in chosen:
                attr = {'name': 'resource_name', 'type': 'resource_type', 'model': 'resource_model'}.get(x, x)
                f[attr] = value_for(g, cls, x, tenum)
                if x == 'image_ref':
                    # stored as "<ref>,<type>": the type is a format token (no comma); the reference is any string
                    f['image_type'] = g.str('v_image_type')
                    g.assume(z3.Not(z3.Contains(f['image_type'].t, z3.StringVal(','))))
            return [PObj(cls, f), tuple(chosen) if len(chosen) > 1 else p], {}

        def body(self, h, sl, p):
            d = h.call(to_d, sl)
            back = h.call(from_d, d)
            return (d, back)

        @staticmethod
        def _rt(pre, post):
            if not returned(post):
                return False
            sl, p = pre.args
            d, back = post.result
            out = []
            dflt = F(cls)
            for attr in dflt:
                if attr in ('node_id',):
                    continue
                out.append(same_or_empty(fld(sl, attr), fld(back, attr)) if attr != 'node_map' or fld(sl, attr) is None
                           else eq(list(fld(back, attr)), list(fld(sl, attr))))
            return And(*out)

        @staticmethod
        def _table(pre, post):
            """the key written for property p is the one SLIVER_PROPERTY_TO_GRAPH names (what unset_property removes)"""
            if not returned(post):
                return False
            sl, p = pre.args
            d, back = post.result
            written = set(keys(d)) - {'StitchNode'}
            ps = p if isinstance(p, tuple) else (p,)
            if 'name' not in ps:
                written = written - {'Name'}
            want = set()
            for x in ps:
                if x == 'stitch_node':
                    continue
                w = APG.SLIVER_PROPERTY_TO_GRAPH.get(x)
                if w is None:
                    return False
                want.add(w)
            return written == want

        ensures = {'flat.round_trip_every_property': lambda pre, post: Flat._rt(pre, post),
                   'table.key_written_is_the_tabled_key': lambda pre, post: Flat._table(pre, post)}
    Flat.__name__ = f'FlatRoundTrip_{kind}'
    return Flat


# ------------------------------------------------------------------------------------------- element level
ELEMENT_PROPS = {
    'node': ['site', 'capacities', 'labels', 'location', 'boot_script', 'user_data', 'tags', 'flags', 'capacity_hints', 'stitch_node'],
    'service': ['site', 'controller_url', 'gateway', 'labels', 'capacities', 'user_data', 'stitch_node'],
    'component': ['details', 'labels', 'capacities', 'user_data', 'tags', 'boot_script', 'stitch_node'],
    'interface': ['labels', 'capacities', 'details', 'user_data', 'flags', 'peer_labels', 'stitch_node'],
}
# properties that cannot be unset (the flag is always there): checked for overwrite only
NO_UNSET = {'stitch_node'}


def elem_value(h, p, second=False):
    """a representative value of property p; second=True: another value of the same property (falsy / 'smaller' where the
    type has such values: overwriting must not depend on the new value being truthy)"""
    if second:
        if p in ('site', 'controller_url', 'boot_script', 'details'):
            # the empty string is a value too (set, but falsy): it must be stored, read back and be unsettable like any other
            return {'site': '', 'controller_url': '', 'boot_script': '', 'details': ''}[p]
        if p == 'stitch_node':
            return False
        if p == 'capacities':
            return h.call(Capacities, core=1)
        if p in ('labels', 'peer_labels'):
            return h.call(Labels, local_name='eth1', vlan='100')
        if p == 'location':
            return h.call(Location, lat=0.0, lon=0.0)
        if p == 'user_data':
            return h.call(UserData, '{}')
        if p == 'tags':
            return h.call(Tags, 't3')
        if p == 'flags':
            return h.call(Flags, ptp=True)
        if p == 'capacity_hints':
            return h.call(CapacityHints, instance_type='fabric.c1.m4.d10')
        if p == 'gateway':
            return h.call(Gateway, h.call(Labels, ipv6_subnet='2001:db8::/64', ipv6='2001:db8::1'))
        raise KeyError(p)
    if p == 'stitch_node':
        return True
    if p in ('site', 'controller_url', 'boot_script', 'details'):
        return {'site': 'SITE2', 'controller_url': 'http://c', 'boot_script': '#!/bin/sh', 'details': 'some, "details"'}[p]
    if p == 'peer_labels':
        return h.call(Labels, local_name='peer0')
    if p == 'capacities':
        return h.call(Capacities, core=2, ram=8)
    if p == 'labels':
        return h.call(Labels, local_name='eth0')
    if p == 'location':
        return h.call(Location, postal='100 Europa Dr, Chapel Hill, NC')
    if p == 'user_data':
        return h.call(UserData, '{"a": 1}')
    if p == 'tags':
        return h.call(Tags, 't1', 't2')
    if p == 'flags':
        return h.call(Flags, auto_config=True)
    if p == 'capacity_hints':
        return h.call(CapacityHints, instance_type='fabric.c2.m8.d10')
    if p == 'gateway':
        return h.call(Gateway, h.call(Labels, ipv4_subnet='10.0.0.0/24', ipv4='10.0.0.1'))
    raise KeyError(p)


def make_elem(kind):
    class Elem(Contract):
        target = 'fim.user.model_element:ModelElement.unset_property'
        extra_targets = ('fim.user.node:Node.set_property', 'fim.user.node:Node.get_property',
                         'fim.user.network_service:NetworkService.set_property', 'fim.user.network_service:NetworkService.get_property',
                         'fim.user.component:Component.set_property', 'fim.user.component:Component.get_property',
                         'fim.user.interface:Interface.set_property', 'fim.user.interface:Interface.get_property')
        props = ('C02',)
        bounded = topo.BOUND + '; the listed properties with one representative value each'
        summaries = topo.SUMMARIES
        max_paths = 4000
        cost = 30

        def inputs(self, g):
            return [g.pick(ELEMENT_PROPS[kind], 'property'), g.atom('site1')], {}

        def body(self, h, p, site1):
            topo.fresh_world(h)
            t = h.call(ExperimentTopology)
            n1 = h.call(h.getattr(t, 'add_node'), name='n1', site=site1)
            if kind == 'node':
                el = n1
            elif kind in ('component', 'interface'):
                el = h.call(h.getattr(n1, 'add_component'), name='nic1', model_type=CMT('SmartNIC_ConnectX_6'))
                if kind == 'interface':
                    el = topo.iface(h, el, 'nic1-p1')
            else:
                el = h.call(h.getattr(t, 'add_network_service'), name='svc', nstype=ServiceType.L3VPN,
                            interfaces=PList([]) if h.mode == 'sym' else [])
            # a witness property set beforehand: setting / overwriting p must leave it alone
            wname = 'stitch_node' if p != 'stitch_node' else 'user_data'
            wval = True if wname == 'stitch_node' else h.call(UserData, '{"w": 1}')
            h.call(h.getattr(el, 'set_property'), wname, wval)
            v = elem_value(h, p)
            h.call(h.getattr(el, 'set_property'), p, v)
            got = h.call(h.getattr(el, 'get_property'), p)
            v2 = elem_value(h, p, second=True)
            h.call(h.getattr(el, 'set_property'), p, v2)
            got2 = h.call(h.getattr(el, 'get_property'), p)
            wgot = h.call(h.getattr(el, 'get_property'), wname)
            after = None
            if p not in NO_UNSET:
                h.call(h.getattr(el, 'unset_property'), p)
                after = h.call(h.getattr(el, 'get_property'), p)
            return (v, got, after, v2, got2, wval, wgot)

        ensures = {
            'elem.set_then_get_equal': lambda pre, post: returned(post) and eq_value(post.result[0], post.result[1]),
            'elem.second_set_overrides_the_first': lambda pre, post: returned(post) and eq_value(post.result[3], post.result[4]),
            'elem.unset_reads_absent': lambda pre, post: returned(post) and post.result[2] is None,
            'elem.set_leaves_other_properties': lambda pre, post: returned(post) and eq_value(post.result[5], post.result[6]),
        }
    Elem.__name__ = f'ElementSetGetUnset_{kind}'
    return Elem


def eq_value(a, b):
    from pyvc.spec import eq as seq
    return seq(a, b)


CONTRACTS = [make_flat(k) for k in KINDS] + [make_elem(k) for k in ELEMENT_PROPS]
for _c in CONTRACTS:
    globals()[_c.__name__] = _c


# ------------------------------------------------------------------------------------------- deep dictionary / JSON form
from fim.slivers.json import JSONSliver
from fim.slivers.attached_components import AttachedComponentsInfo
from fim.slivers.network_service import NetworkServiceInfo
from fim.slivers.interface_info import InterfaceInfo


def _children(x):
    """[(relation, [child slivers in name order])] of a sliver, in either mode"""
    out = []
    for attr, inner in (('attached_components_info', 'devices'), ('network_service_info', 'network_services'),
                        ('interface_info', 'interfaces')):
        has_attr = (attr in x.d.e) if isinstance(x, PObj) else hasattr(x, attr)
        info = fld(x, attr) if has_attr else None
        if info is None:
            continue
        d = fld(info, inner)
        kids = list(values(d))
        kids.sort(key=lambda k: str(fld(k, 'resource_name')))
        if kids:
            out.append((attr, kids))
    return out


def tree_same(a, b, fields=('resource_name', 'resource_type', 'resource_model', 'details', 'capacities', 'labels')):
    """same structure (an absent container and an empty one are the same structure) and the same listed property values"""
    if type(a).__name__ != type(b).__name__ or (isinstance(a, PObj) and a.cls is not b.cls):
        return False
    out = []
    for f in fields:
        out.append(same_or_empty(fld(a, f), fld(b, f)))
    ca, cb = _children(a), _children(b)
    if [r for r, _ in ca] != [r for r, _ in cb]:
        return False
    for (_, ka), (_, kb) in zip(ca, cb):
        if len(ka) != len(kb):
            return False
        out += [tree_same(x, y, fields) for x, y in zip(ka, kb)]
    return And(*out)


def build_deep(h, shape, vals, with_ids=False):
    def mk_(cls, name, typ, key, **kw):
        s = h.call(cls)
        h.call(h.getattr(s, 'set_properties'), name=name, type=typ, details=vals[key], **kw)
        if with_ids:
            h.setattr(s, 'node_id', 'id-' + name)
        return s
    n = mk_(NodeSliver, 'n1', NodeType.VM, 'node', capacities=h.call(Capacities, core=vals['core']))
    if shape['comp']:
        c = mk_(ComponentSliver, 'c1', ComponentType.SmartNIC, 'comp', model=vals['model'])
        if shape['csvc']:
            s = mk_(NetworkServiceSliver, 's1', ServiceType.OVS, 'csvc')
            if shape['cif']:
                i = mk_(InterfaceSliver, 'p1', InterfaceType.DedicatedPort, 'cif')
                if shape['sub']:
                    sub = mk_(InterfaceSliver, 'p1.1', InterfaceType.SubInterface, 'sub')
                    ii = h.call(InterfaceInfo)
                    h.call(h.getattr(ii, 'add_interface'), sub)
                    h.setattr(i, 'interface_info', ii)
                ii = h.call(InterfaceInfo)
                h.call(h.getattr(ii, 'add_interface'), i)
                h.setattr(s, 'interface_info', ii)
            nsi = h.call(NetworkServiceInfo)
            h.call(h.getattr(nsi, 'add_network_service'), s)
            h.setattr(c, 'network_service_info', nsi)
        aci = h.call(AttachedComponentsInfo)
        h.call(h.getattr(aci, 'add_device'), c)
        h.setattr(n, 'attached_components_info', aci)
    if shape['nsvc']:
        s2 = mk_(NetworkServiceSliver, 's2', ServiceType.L2Bridge, 'nsvc')
        if shape['nif']:
            i2 = mk_(InterfaceSliver, 'q1', InterfaceType.ServicePort, 'nif')
            ii = h.call(InterfaceInfo)
            h.call(h.getattr(ii, 'add_interface'), i2)
            h.setattr(s2, 'interface_info', ii)
        nsi = h.call(NetworkServiceInfo)
        h.call(h.getattr(nsi, 'add_network_service'), s2)
        h.setattr(n, 'network_service_info', nsi)
    return n


class DeepJsonRoundTrip(Contract):
    """a node sliver with nested components / services / interfaces / sub-interfaces -> JSON text -> sliver"""
    target = 'fim.slivers.json:JSONSliver.sliver_to_json'
    extra_targets = ('fim.slivers.json:JSONSliver.node_sliver_from_json', TG + 'sliver_to_dict',
                     TG + 'build_deep_node_sliver_from_dict', TG + 'build_deep_component_sliver_from_dict',
                     TG + 'build_deep_ns_sliver_from_dict', TG + 'build_deep_interface_sliver_from_dict')
    props = ('C02',)
    bounded = ('containment shapes: a node with <= 1 component (<= 1 service, <= 1 interface, <= 1 sub-interface) and <= 1 '
               'node-level service (<= 1 interface); names concrete, details / model / capacity values symbolic')
    summaries = SET_NAME
    max_paths = 4000
    cost = 30

    def inputs(self, g):
        shape = dict(comp=g.choice(2, 'component?') == 0)
        shape['csvc'] = shape['comp'] and g.choice(2, 'component service?') == 0
        shape['cif'] = shape['csvc'] and g.choice(2, 'service interface?') == 0
        shape['sub'] = shape['cif'] and g.choice(2, 'sub-interface?') == 0
        shape['nsvc'] = g.choice(2, 'node-level service?') == 0
        shape['nif'] = shape['nsvc'] and g.choice(2, 'node-level service interface?') == 0
        vals = {k: g.str(f'details_{k}') for k in ('node', 'comp', 'csvc', 'cif', 'sub', 'nsvc', 'nif')}
        vals['core'] = g.int('core', lo=0)
        vals['model'] = g.str('model')
        vals['again'] = g.str('details_again')
        return [shape, vals], {}

    def body(self, h, shape, vals):
        n = build_deep(h, shape, vals)
        js = h.call(JSONSliver.sliver_to_json, n)
        back = h.call(JSONSliver.node_sliver_from_json, js)
        # a sliver of the same name and id but with other content, converted later in the same process
        vals2 = dict(vals)
        vals2['node'] = vals['again']
        n2 = build_deep(h, shape, vals2)
        js2 = h.call(JSONSliver.sliver_to_json, n2)
        back2 = h.call(JSONSliver.node_sliver_from_json, js2)
        return (n, back, fld(back2, 'details'))

    ensures = {
        'deep.same_structure_and_values': lambda pre, post: returned(post) and tree_same(post.result[0], post.result[1]),
        'deep.second_conversion_reflects_the_edit': lambda pre, post: returned(post) and same(post.result[2], pre.args[1]['again']),
    }




class DeepGraphRoundTrip(DeepJsonRoundTrip):
    """the same nested slivers written into a model graph (add_network_node_sliver) and rebuilt (build_deep_node_sliver)"""
    target = TG + 'add_network_node_sliver'
    extra_targets = (TG + 'add_component_sliver', TG + 'add_network_service_sliver', TG + 'add_interface_sliver',
                     TG + 'build_deep_node_sliver', TG + 'build_deep_component_sliver', TG + 'build_deep_ns_sliver',
                     TG + 'build_deep_interface_sliver')
    bounded = DeepJsonRoundTrip.bounded + '; ' + topo.BOUND
    summaries = topo.SUMMARIES

    def body(self, h, shape, vals):
        topo.fresh_world(h)
        t = h.call(ExperimentTopology)
        gmodel = h.getattr(t, 'graph_model')
        n = build_deep(h, shape, vals, with_ids=True)
        h.call(h.getattr(gmodel, 'add_network_node_sliver'), sliver=n)
        back = h.call(h.getattr(gmodel, 'build_deep_node_sliver'), node_id='id-n1')
        return (n, back)

    ensures = {
        'graph.same_structure_and_values': lambda pre, post: returned(post) and tree_same(
            post.result[0], post.result[1], fields=('resource_name', 'resource_type', 'resource_model', 'details',
                                                    'capacities', 'labels', 'node_id')),
    }


CONTRACTS += [DeepJsonRoundTrip, DeepGraphRoundTrip]
