"""
C06 -- Neighbour and path queries return exactly what their contract describes.

The real get_first_neighbor / get_first_and_second_neighbor / get_nodes_on_shortest_path / get_nodes_on_path_with_hops (and
the mixin helpers they call) are executed symbolically over the bounded store model (contracts/graphmodel.py) for both store
flavours; the postconditions are the exact sets of the statement, computed by a specification that only looks at the node and
edge lists.  BOUNDED: all stores with <= 3 nodes over two graph ids; all NodeID / Class / relation values, all start / end
nodes, relations, classes and hop lists.  networkx path algorithms are the library's own (assumed) on the concrete shape.
"""
import itertools

from pyvc.harness import Contract
from pyvc.spec import And, Or, Not, Implies, Iff, eq, same, returned, raised, is_list, items, Ite
from pyvc.values import PList
from contracts import graphmodel as gm
from contracts.graphmodel import (gen_shared_world, gen_disjoint_world, handle, g_nodes, g_attr, g_edges, g_eattrs, g_has_edge,
                                  store_graph, bag_eq, count, as_list, a_get, fldv)
from fim.graph.networkx_property_graph import NetworkXPropertyGraph
from fim.graph.abc_property_graph import PropertyGraphQueryException

TP = 'fim.graph.networkx_property_graph:NetworkXPropertyGraph.'
TM = 'fim.graph.networkx_mixin:NetworkXMixin.'
HELPERS = (TM + '_find_node', TM + '_get_first_neighbors_via', TM + '_filter_nodes_by_label', TM + '_get_node_ids_for_list',
           TM + '_drop_edges_not_of_type')


def world(g, flavour):
    # shared store: edges between nodes of DIFFERENT graphs exist after merge_nodes -- queries must not follow them
    return gen_shared_world(g, cross_edges=True) if flavour == 'shared' else gen_disjoint_world(g)


def pre_graph(pre):
    """the stored graph holding gA before the call (args[0] is the handle)"""
    pg = pre.args[0]
    return store_graph(fldv(pg, 'storage'), fldv(pg, 'graph_id')), fldv(pg, 'graph_id')


def members(G, gid):
    return [(n, eq(g_attr(G, n, 'GraphID'), gid)) for n in g_nodes(G)] if G is not None else []


def is_start(G, gid, n, node_id):
    return And(eq(g_attr(G, n, 'GraphID'), gid), eq(g_attr(G, n, 'NodeID'), node_id))


def ecls(G, a, b):
    return a_get(g_eattrs(G, a, b), 'Class')


def unique_start(G, gid, node_id):
    return eq(count(g_nodes(G), lambda n: is_start(G, gid, n, node_id)), 1) if G is not None else False


def make(flavour):
    out = []

    class FirstNeighbor(Contract):
        target = TP + 'get_first_neighbor'
        extra_targets = HELPERS
        props = ('C06',)
        bounded = gm.BOUND
        cost = 5

        def inputs(self, g):
            w = world(g, flavour)
            return [handle(w, w.gA)], dict(node_id=g.atom('start'), rel=g.atom('rel'), node_label=g.atom('label'))

        def body(self, h, pg, **kw):
            return h.call(NetworkXPropertyGraph.get_first_neighbor, pg, **kw)

        @staticmethod
        def _exact(pre, post):
            G, gid = pre_graph(pre)
            kw = pre.kwargs
            if G is None:
                return True
            uniq = unique_start(G, gid, kw['node_id'])
            exp = []
            for n in g_nodes(G):
                for m in g_nodes(G):
                    if m != n and g_has_edge(G, n, m):
                        exp.append((And(is_start(G, gid, n, kw['node_id']), eq(g_attr(G, m, 'GraphID'), gid),
                                        eq(ecls(G, n, m), kw['rel']), eq(g_attr(G, m, 'Class'), kw['node_label'])),
                                    g_attr(G, m, 'NodeID')))
            if not returned(post):
                return Not(uniq)          # a query with a well-defined start node never fails
            return Implies(uniq, And(is_list(post.result), bag_eq(as_list(post.result), exp)))

        ensures = {'first.exact': lambda pre, post: FirstNeighbor._exact(pre, post),
                   'first.pure': lambda pre, post: gm.graph_same(pre_graph(pre)[0], pre_graph(post)[0])
                   if pre_graph(pre)[0] is not None and pre_graph(post)[0] is not None else True}
    FirstNeighbor.__name__ = f'FirstNeighbor_{flavour}'
    out.append(FirstNeighbor)

    class SecondNeighbor(Contract):
        target = TP + 'get_first_and_second_neighbor'
        extra_targets = HELPERS
        props = ('C06',)
        bounded = gm.BOUND
        cost = 20

        def inputs(self, g):
            w = world(g, flavour)
            return [handle(w, w.gA)], dict(node_id=g.atom('start'), rel1=g.atom('rel1'), node1_label=g.atom('label1'),
                                           rel2=g.atom('rel2'), node2_label=g.atom('label2'))

        def body(self, h, pg, **kw):
            return h.call(NetworkXPropertyGraph.get_first_and_second_neighbor, pg, **kw)

        @staticmethod
        def _expected(G, gid, kw, with_rel2=True):
            exp = []
            N = g_nodes(G)
            for n in N:
                for m in N:
                    if m == n or not g_has_edge(G, n, m):
                        continue
                    for k in N:
                        if k == m or k == n or not g_has_edge(G, m, k):
                            continue
                        exp.append((And(is_start(G, gid, n, kw['node_id']), eq(g_attr(G, m, 'GraphID'), gid),
                                        eq(g_attr(G, k, 'GraphID'), gid), eq(ecls(G, n, m), kw['rel1']),
                                        eq(g_attr(G, m, 'Class'), kw['node1_label']),
                                        eq(ecls(G, m, k), kw['rel2']) if with_rel2 else True,
                                        eq(g_attr(G, k, 'Class'), kw['node2_label'])),
                                    [g_attr(G, m, 'NodeID'), g_attr(G, k, 'NodeID')]))
            return exp

        @staticmethod
        def _exact(pre, post, allow_known=False):
            G, gid = pre_graph(pre)
            kw = pre.kwargs
            if G is None:
                return True
            uniq = unique_start(G, gid, kw['node_id'])
            if not returned(post):
                return Not(uniq)
            res = as_list(post.result)
            ok = bag_eq(res, SecondNeighbor._expected(G, gid, kw))
            if allow_known:
                # KF-C06-1: the second relation is not applied (see KNOWN_FINDINGS.jsonl); any OTHER deviation still fails
                ok = Or(ok, bag_eq(res, SecondNeighbor._expected(G, gid, kw, with_rel2=False)))
            return Implies(uniq, And(is_list(post.result), ok))

        ensures = {'second.exact': lambda pre, post: SecondNeighbor._exact(pre, post),
                   'second.exact_or_known_defect_KF-C06-1': lambda pre, post: SecondNeighbor._exact(pre, post, allow_known=True)}
    SecondNeighbor.__name__ = f'SecondNeighbor_{flavour}'
    out.append(SecondNeighbor)

    def simple_paths(G, gid):
        """all simple paths (as node tuples, length >= 1 node) of the concrete shape"""
        N = g_nodes(G)
        paths = []
        for r in range(1, len(N) + 1):
            for p in itertools.permutations(N, r):
                if all(g_has_edge(G, p[i], p[i + 1]) for i in range(len(p) - 1)):
                    paths.append(p)
        return paths

    class ShortestPath(Contract):
        target = TP + 'get_nodes_on_shortest_path'
        extra_targets = HELPERS
        props = ('C06',)
        bounded = gm.BOUND
        cost = 20

        def inputs(self, g):
            w = world(g, flavour)
            rel = g.atom('rel') if g.choice(2, 'relation given?') == 0 else None
            return [handle(w, w.gA)], dict(node_a=g.atom('a'), node_z=g.atom('z'), rel=rel)

        def body(self, h, pg, **kw):
            return h.call(NetworkXPropertyGraph.get_nodes_on_shortest_path, pg, **kw)

        @staticmethod
        def _valid(G, gid, p, kw):
            conds = [is_start(G, gid, p[0], kw['node_a']), is_start(G, gid, p[-1], kw['node_z'])]
            conds += [eq(g_attr(G, n, 'GraphID'), gid) for n in p]
            if kw['rel'] is not None:
                conds += [eq(ecls(G, p[i], p[i + 1]), kw['rel']) for i in range(len(p) - 1)]
            return And(*conds)

        @staticmethod
        def _exact(pre, post):
            G, gid = pre_graph(pre)
            kw = pre.kwargs
            if G is None:
                return True
            ends_ok = And(unique_start(G, gid, kw['node_a']), unique_start(G, gid, kw['node_z']))
            paths = simple_paths(G, gid)
            if not returned(post):
                return Not(ends_ok)          # never fails because other kinds of edges are present
            res = as_list(post.result)
            some = Or(*[ShortestPath._valid(G, gid, p, kw) for p in paths])
            if len(res) == 0:
                return Implies(ends_ok, Not(some))
            alts = []
            for p in paths:
                if len(p) != len(res):
                    continue
                shorter = [q for q in paths if len(q) < len(p)]
                alts.append(And(ShortestPath._valid(G, gid, p, kw), *[eq(res[i], g_attr(G, p[i], 'NodeID')) for i in range(len(p))],
                                *[Not(ShortestPath._valid(G, gid, q, kw)) for q in shorter]))
            return Implies(ends_ok, Or(*alts))

        ensures = {'sp.actual_minimal_rel_path_or_empty': lambda pre, post: ShortestPath._exact(pre, post)}
    ShortestPath.__name__ = f'ShortestPath_{flavour}'
    out.append(ShortestPath)

    class PathWithHops(Contract):
        target = TP + 'get_nodes_on_path_with_hops'
        extra_targets = HELPERS
        props = ('C06',)
        bounded = gm.BOUND + '; hop lists of length 0..2 (the two hops may be equal, may be end nodes, in any order)'
        cost = 20

        def inputs(self, g):
            w = world(g, flavour)
            hops = PList([g.atom(f'hop{i}') for i in range(g.pick([0, 1, 2], 'number of hops'))])
            return [handle(w, w.gA)], dict(node_a=g.atom('a'), node_z=g.atom('z'), hops=hops)

        def body(self, h, pg, **kw):
            return h.call(NetworkXPropertyGraph.get_nodes_on_path_with_hops, pg, **kw)

        @staticmethod
        def _acyclic(G, p):
            """induced subgraph on p has no cycle: a simple path's induced subgraph is acyclic iff it has no chord"""
            for i in range(len(p)):
                for j in range(i + 2, len(p)):
                    if g_has_edge(G, p[i], p[j]):
                        return False
            return True

        @staticmethod
        def _valid(G, gid, p, kw):
            if not PathWithHops._acyclic(G, p):
                return False
            hops = as_list(kw['hops'])
            conds = [is_start(G, gid, p[0], kw['node_a']), is_start(G, gid, p[-1], kw['node_z'])]
            conds += [eq(g_attr(G, n, 'GraphID'), gid) for n in p]
            for hp in hops:
                conds.append(Or(*[eq(g_attr(G, n, 'NodeID'), hp) for n in p]))
            return And(*conds)

        @staticmethod
        def _exact(pre, post):
            G, gid = pre_graph(pre)
            kw = pre.kwargs
            if G is None:
                return True
            ends_ok = And(unique_start(G, gid, kw['node_a']), unique_start(G, gid, kw['node_z']))
            paths = [p for p in simple_paths(G, gid)]
            if not returned(post):
                return Not(ends_ok)
            res = as_list(post.result)
            some = Or(*[PathWithHops._valid(G, gid, p, kw) for p in paths])
            if len(res) == 0:
                return Implies(ends_ok, Not(some))
            alts = []
            for p in paths:
                if len(p) != len(res):
                    continue
                shorter = [q for q in paths if len(q) < len(p)]
                alts.append(And(PathWithHops._valid(G, gid, p, kw), *[eq(res[i], g_attr(G, p[i], 'NodeID')) for i in range(len(p))],
                                *[Not(PathWithHops._valid(G, gid, q, kw)) for q in shorter]))
            return Implies(ends_ok, Or(*alts))

        ensures = {'hops.loop_free_shortest_containing_hops_or_empty': lambda pre, post: PathWithHops._exact(pre, post)}
    PathWithHops.__name__ = f'PathWithHops_{flavour}'
    out.append(PathWithHops)
    return out


LEVEL = 'other'      # every obligation here is a bounded stand-in (never counted as proved)
CONTRACTS = make('shared') + make('disjoint')
for _c in CONTRACTS:
    globals()[_c.__name__] = _c
