"""
C05 -- In-memory graph back ends agree with each other and with the documented semantics.

Every public operation of the shared-store back end and of the one-graph-per-store back end is executed on its REAL source
over the bounded store model and checked against ONE contract per operation (the documented interface: result, new content,
and exactly which calls raise).  Both back ends meeting the same contract is the agreement the statement asks for.
BOUNDED: stores of <= 3 nodes over two graph ids, every NodeID / Class / Type / property value symbolic (all collisions).
"""
from contracts import pgops

LEVEL = 'other'
CONTRACTS = []
for _fl in ('shared', 'disjoint'):
    for _name, _c in pgops.make_ops(_fl).items():
        class _C(_c):
            ensures = {k: v for k, v in _c.ensures.items() if not k.startswith('frame.')}
            props = ('C05',)
        _C.__name__ = _c.__name__
        _C.cost = _c.cost
        globals()[_C.__name__] = _C
        CONTRACTS.append(_C)
