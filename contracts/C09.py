"""
C09 -- A topology operation that fails leaves the model unchanged.

Scenario programs build a topology through the real API and then attempt a call that the library rejects (duplicate name or
id, unknown component model, an interface that is already connected / not allowed on that service type -- at the first or at
a later position --, an unknown interface, an oversized property among good ones, colliding derived ids).  Exceptional
postcondition on the canonical snapshots taken around the call:  raised  =>  the model is exactly what it was before.
"""
from pyvc.harness import Contract
from pyvc.spec import And, Or, Not, Implies, Iff, eq, returned, raised, items
from pyvc.values import PList
from contracts import topo
from contracts.topo import take, graph_equal, CMT, find
from fim.user.topology import ExperimentTopology, SubstrateTopology
from fim.user.interface import Interface
from fim.slivers.network_service import ServiceType
from fim.slivers.network_link import LinkType
from fim.slivers.attached_components import ComponentType
from fim.slivers.capacities_labels import Labels, Capacities

LEVEL = 'other'


def L(h, xs):
    return PList(xs) if h.mode == 'sym' else list(xs)


def base(h, site1, site2):
    topo.fresh_world(h)
    t = h.call(ExperimentTopology)
    n1 = h.call(h.getattr(t, 'add_node'), name='n1', site=site1)
    c1 = h.call(h.getattr(n1, 'add_component'), name='nic1', model_type=CMT('SmartNIC_ConnectX_6'))
    n2 = h.call(h.getattr(t, 'add_node'), name='n2', site=site2)
    c2 = h.call(h.getattr(n2, 'add_component'), name='nic2', model_type=CMT('SharedNIC_ConnectX_6'))
    return t, n1, n2, c1, c2


FAILING = {}
MAY_SUCCEED = {'add_facility.two_interfaces_with_caller_supplied_id', 'add_component.derived_service_name_of_another_card'}     # accepted since the repair of the id numbering


def failing(name):
    def deco(f):
        FAILING[name] = f
        return f
    return deco


@failing('add_node.duplicate_name')
def _(h, t, n1, n2, c1, c2, site):
    return h.attempt(h.getattr(t, 'add_node'), name='n1', site=site)


@failing('add_component.duplicate_name')
def _(h, t, n1, n2, c1, c2, site):
    return h.attempt(h.getattr(n1, 'add_component'), name='nic1', model_type=CMT('GPU_Tesla_T4'))


@failing('add_component.unknown_model')
def _(h, t, n1, n2, c1, c2, site):
    return h.attempt(h.getattr(n1, 'add_component'), name='x1', ctype=ComponentType.GPU, model='NoSuchModel')


@failing('add_network_service.second_interface_already_connected')
def _(h, t, n1, n2, c1, c2, site):
    i1 = topo.iface(h, c1, 'nic1-p1')
    i1b = topo.iface(h, c1, 'nic1-p2')
    i2 = topo.iface(h, c2, 'nic2-p1')
    h.call(h.getattr(t, 'add_network_service'), name='br0', nstype=ServiceType.L2Bridge, interfaces=L(h, [i2]))
    return ('pre', lambda: h.attempt(h.getattr(t, 'add_network_service'), name='br1', nstype=ServiceType.L2Bridge,
                                     interfaces=L(h, [i1, i2])))


@failing('add_network_service.first_interface_already_connected')
def _(h, t, n1, n2, c1, c2, site):
    i1 = topo.iface(h, c1, 'nic1-p1')
    i2 = topo.iface(h, c2, 'nic2-p1')
    h.call(h.getattr(t, 'add_network_service'), name='br0', nstype=ServiceType.L2Bridge, interfaces=L(h, [i1]))
    return ('pre', lambda: h.attempt(h.getattr(t, 'add_network_service'), name='br1', nstype=ServiceType.L2Bridge,
                                     interfaces=L(h, [i1, i2])))


@failing('add_network_service.l2ptp_second_interface_shared_port')
def _(h, t, n1, n2, c1, c2, site):
    i1 = topo.iface(h, c1, 'nic1-p1')
    i2 = topo.iface(h, c2, 'nic2-p1')
    return h.attempt(h.getattr(t, 'add_network_service'), name='ptp', nstype=ServiceType.L2PTP, interfaces=L(h, [i1, i2]))


@failing('connect_interface.already_connected')
def _(h, t, n1, n2, c1, c2, site):
    i1 = topo.iface(h, c1, 'nic1-p1')
    i2 = topo.iface(h, c2, 'nic2-p1')
    h.call(h.getattr(t, 'add_network_service'), name='br0', nstype=ServiceType.L2Bridge, interfaces=L(h, [i1]))
    ns = h.call(h.getattr(t, 'add_network_service'), name='br1', nstype=ServiceType.L2Bridge, interfaces=L(h, [i2]))
    return ('pre', lambda: h.attempt(h.getattr(ns, 'connect_interface'), i1))


@failing('add_link.unknown_interface')
def _(h, t, n1, n2, c1, c2, site):
    # an interface of ANOTHER topology: its id is unknown in this model
    i1 = topo.iface(h, c1, 'nic1-p1')
    t2 = h.call(ExperimentTopology)
    m = h.call(h.getattr(t2, 'add_node'), name='m1', site=site)
    cm = h.call(h.getattr(m, 'add_component'), name='nicm', model_type=CMT('SharedNIC_ConnectX_6'))
    foreign = topo.pylist(h.getattr(cm, 'interface_list'))[0]
    return ('pre', lambda: h.attempt(h.getattr(t, 'add_link'), name='l1', ltype=LinkType.Patch, interfaces=L(h, [i1, foreign])))


@failing('set_properties.oversized_boot_script_among_good_ones')
def _(h, t, n1, n2, c1, c2, site):
    return h.attempt(h.getattr(n1, 'set_properties'), image_ref='img', boot_script='#' * 2000)


@failing('add_facility.two_interfaces_with_caller_supplied_id')
def _(h, t, n1, n2, c1, c2, site):
    ifs = [('a', h.call(Labels, vlan='100'), h.call(Capacities, bw=10)), ('b', h.call(Labels, vlan='200'), h.call(Capacities, bw=10))]
    return h.attempt(h.getattr(t, 'add_facility'), name='fac', node_id='F1', site=site, interfaces=L(h, ifs))


@failing('add_network_service.none_entry_after_a_good_interface')
def _(h, t, n1, n2, c1, c2, site):
    i1 = topo.iface(h, c1, 'nic1-p1')
    return h.attempt(h.getattr(t, 'add_network_service'), name='br1', nstype=ServiceType.L2Bridge, interfaces=L(h, [i1, None]))


@failing('add_network_service.same_interface_listed_twice')
def _(h, t, n1, n2, c1, c2, site):
    i1 = topo.iface(h, c1, 'nic1-p1')
    i2 = topo.iface(h, c2, 'nic2-p1')
    return h.attempt(h.getattr(t, 'add_network_service'), name='br1', nstype=ServiceType.L2Bridge, interfaces=L(h, [i1, i2, i1]))


@failing('add_link.entry_that_is_not_an_interface')
def _(h, t, n1, n2, c1, c2, site):
    i1 = topo.iface(h, c1, 'nic1-p1')
    return h.attempt(h.getattr(t, 'add_link'), name='l1', ltype=LinkType.Patch, interfaces=L(h, [i1, 'nic2-p1']))


@failing('add_facility.interface_arguments_rejected')
def _(h, t, n1, n2, c1, c2, site):
    # the facility node and its service are created before the port's arguments are looked at
    return h.attempt(h.getattr(t, 'add_facility'), name='fac', site=site, labels='vlan 100')


@failing('add_facility.two_interfaces_of_one_name')
def _(h, t, n1, n2, c1, c2, site):
    ifs = [('a', h.call(Labels, vlan='100'), h.call(Capacities, bw=10)), ('a', h.call(Labels, vlan='200'), h.call(Capacities, bw=10))]
    return h.attempt(h.getattr(t, 'add_facility'), name='fac', site=site, interfaces=L(h, ifs))


@failing('add_switch.port_arguments_rejected')
def _(h, t, n1, n2, c1, c2, site):
    return h.attempt(h.getattr(t, 'add_switch'), name='sw', site=site, nports=2, portlabels='p')


@failing('add_network_service.node_id_of_an_existing_service')
def _(h, t, n1, n2, c1, c2, site):
    i1 = topo.iface(h, c1, 'nic1-p1')
    i2 = topo.iface(h, c2, 'nic2-p1')
    first = h.call(h.getattr(t, 'add_network_service'), name='br0', nstype=ServiceType.L2Bridge, interfaces=L(h, [i1]), node_id='svc-id')
    return ('pre', lambda: h.attempt(h.getattr(t, 'add_network_service'), name='br1', nstype=ServiceType.L2Bridge,
                                     interfaces=L(h, [i2]), node_id='svc-id'))


@failing('add_component.derived_service_name_of_another_card')
def _(h, t, n1, n2, c1, c2, site):
    # node "rack-a" + card "nic1" and node "rack" + card "a-nic1" derive the same name for the card's own service
    ra = h.call(h.getattr(t, 'add_node'), name='rack-a', site=site)
    h.call(h.getattr(ra, 'add_component'), name='nic1', model_type=CMT('SharedNIC_ConnectX_6'))
    rb = h.call(h.getattr(t, 'add_node'), name='rack', site=site)
    return ('pre', lambda: h.attempt(h.getattr(rb, 'add_component'), name='a-nic1', model_type=CMT('SharedNIC_ConnectX_6')))


@failing('connect_interface.through_the_handle_of_a_removed_service')
def _(h, t, n1, n2, c1, c2, site):
    i1 = topo.iface(h, c1, 'nic1-p1')
    ns = h.call(h.getattr(t, 'add_network_service'), name='br0', nstype=ServiceType.L2Bridge, interfaces=L(h, []))
    h.call(h.getattr(t, 'remove_network_service'), 'br0')
    return ('pre', lambda: h.attempt(h.getattr(ns, 'connect_interface'), i1))


@failing('add_network_service.parent_that_does_not_exist')
def _(h, t, n1, n2, c1, c2, site):
    return h.attempt(h.getattr(t, 'add_network_service'), name='br0', nstype=ServiceType.L2Bridge, interfaces=L(h, []),
                     parent_node_id='no-such-node')


@failing('connect_interface.derived_link_name_too_long')
def _(h, t, n1, n2, c1, c2, site):
    # "<node>-<interface>" fits a port name (255), "<node>-<interface>-link" does not
    big = h.call(h.getattr(t, 'add_node'), name='n' * 200, site=site)
    card = h.call(h.getattr(big, 'add_component'), name='c' * 48, model_type=CMT('SharedNIC_ConnectX_6'))
    i = topo.pylist(h.getattr(card, 'interface_list'))[0]
    ns = h.call(h.getattr(t, 'add_network_service'), name='br0', nstype=ServiceType.L2Bridge, interfaces=L(h, []))
    return ('pre', lambda: h.attempt(h.getattr(ns, 'connect_interface'), i))


@failing('substrate_add_component.nested_interface_id_in_use')
def _(h, t, n1, n2, c1, c2, site):
    from fim.slivers.network_node import NodeType
    st = h.call(SubstrateTopology)
    w = h.call(h.getattr(st, 'add_node'), name='w1', node_id='w1', site=site, ntype=NodeType.Server)
    labels = [h.call(Labels, bdf='0000:41:00.0', mac='00:00:00:00:00:01'), h.call(Labels, bdf='0000:41:00.1', mac='00:00:00:00:00:02')]
    return ('pre', lambda: h.attempt(h.getattr(w, 'add_component'), name='nic1', node_id='nic1', model_type=CMT('SmartNIC_ConnectX_6'),
                                     network_service_node_id='nic1-sf', interface_node_ids=L(h, ['p1', 'w1']),
                                     interface_labels=L(h, labels)), st)


def make(name, run):
    class Op(Contract):
        target = 'fim.user.topology:Topology.add_node'
        props = ('C09',)
        bounded = topo.BOUND
        summaries = topo.SUMMARIES
        max_paths = 2000
        cost = 20

        def inputs(self, g):
            return [g.atom('site1'), g.atom('site2')], {}

        def body(self, h, site1, site2):
            t, n1, n2, c1, c2 = base(h, site1, site2)
            r = run(h, t, n1, n2, c1, c2, site1)
            if isinstance(r, tuple) and r[0] == 'pre':
                if len(r) == 3:
                    t = r[2]           # the scenario built its own topology (e.g. a substrate model)
                S0 = take(h, t)
                st, val = r[1]()
            else:
                # the attempt was already made: re-run from a fresh base to get the snapshot before it
                t, n1, n2, c1, c2 = base(h, site1, site2)
                S0 = take(h, t)
                st, val = run(h, t, n1, n2, c1, c2, site1)
            S1 = take(h, t)
            return (st, S0, S1)

        ensures = {
            'atomic.raised_implies_model_unchanged': lambda pre, post: returned(post) and (
                post.result[0] != 'exc' or graph_equal(post.result[1], post.result[2])),
            'scenario.call_is_rejected': lambda pre, post: returned(post) and (post.result[0] == 'exc' or name in MAY_SUCCEED),
        }
    Op.__name__ = 'Fail_' + name.replace('.', '__')
    return Op


CONTRACTS = [make(n, f) for n, f in FAILING.items()]
for _c in CONTRACTS:
    globals()[_c.__name__] = _c
