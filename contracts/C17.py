"""
C17 -- Sliver comparison reports exactly the differences between two slivers.

Functions under contract: BaseSliver.prop_diff/_dict_diff/_dict_common/__eq__/__hash__, NodeSliver.diff,
NetworkServiceSliver.diff, InterfaceSliver.diff, Labels.__eq__, Capacities.__eq__ (and the JSON blob comparison they rely on).
Slivers are generated with every combination of present / absent children over a small name alphabet and symbolic property
values; the specification is the set algebra of the statement (added = names only in new, removed = names only in old,
modified flags = exactly the tracked properties that differ).  Child collections: names drawn from {c1, c2} / {s1} / {i1, i2}.
"""
import z3

from pyvc.harness import Contract
from pyvc.spec import (And, Or, Not, Implies, Iff, eq, same, returned, raised, Ite, is_true, is_false, fld, items, keys, values,
                       is_none, isinst, forall)
from pyvc.values import PObj, PDict, PList, PSet, JsonText, is_sym
from fim.slivers.network_node import NodeSliver, NodeType
from fim.slivers.attached_components import ComponentSliver, ComponentType, AttachedComponentsInfo
from fim.slivers.network_service import NetworkServiceSliver, NetworkServiceInfo, ServiceType
from fim.slivers.interface_info import InterfaceSliver, InterfaceInfo, InterfaceType
from fim.slivers.capacities_labels import Labels, Capacities
from fim.slivers.json_data import UserData
from fim.slivers.topology_diff import WhatsModifiedFlag, TopologyDiff
from fim.slivers.base_sliver import BaseSliver

TB = 'fim.slivers.base_sliver:BaseSliver.'
LABEL_FIELDS = list(Labels().__dict__.keys())
CAP_FIELDS = list(Capacities().__dict__.keys())


def blank(cls):
    """all fields of a freshly constructed sliver of this class (read from the real constructor)"""
    return dict(cls().__dict__)


def mk_labels(g, name):
    if g.choice(2, f'{name} labels?') == 1:
        return None
    return PObj(Labels, {**{f: None for f in LABEL_FIELDS}, 'local_name': g.str(f'{name}.local_name')})


def mk_caps(g, name):
    if g.choice(2, f'{name} capacities?') == 1:
        return None
    return PObj(Capacities, {**{f: 0 for f in CAP_FIELDS}, 'core': g.int(f'{name}.core', lo=0)})


def mk_ud(g, name):
    if g.choice(2, f'{name} user data?') == 1:
        return None
    return PObj(UserData, {'_data': g.str(f'{name}.ud')})


def mk_sliver(g, cls, name, props=True, **extra):
    f = blank(cls)
    f['resource_name'] = name.split('/')[-1]
    if props:
        f['labels'], f['capacities'], f['user_data'] = mk_labels(g, name), mk_caps(g, name), mk_ud(g, name)
    f.update(extra)
    return PObj(cls, f)


# ---- specification helpers (polymorphic: engine objects or real objects)
def labels_differ(a, b):
    if a is None and b is None:
        return False
    if a is None or b is None:
        return True
    return Not(And(*[eq(fld(a, f), fld(b, f)) for f in LABEL_FIELDS]))


def caps_differ(a, b):
    if a is None and b is None:
        return False
    if a is None or b is None:
        return True
    return Not(And(*[eq(fld(a, f), fld(b, f)) for f in CAP_FIELDS]))


def ud_differ(a, b):
    """the statement: user data changed <=> the JSON texts differ (equal-valued user data on both sides is not a change)"""
    if a is None and b is None:
        return False
    if a is None or b is None:
        return True
    return Not(eq(fld(a, '_data'), fld(b, '_data')))


def flag_has(flag, bit):
    return bool(flag & bit)


class PropDiff(Contract):
    target = TB + 'prop_diff'
    extra_targets = ('fim.slivers.capacities_labels:Labels.__eq__', 'fim.slivers.capacities_labels:Capacities.__eq__')
    props = ('C17',)

    def inputs(self, g):
        return [mk_sliver(g, NodeSliver, 'old'), mk_sliver(g, NodeSliver, 'new')], {}

    def body(self, h, a, b):
        return h.call(BaseSliver.prop_diff, a, b)

    @staticmethod
    def _exact(pre, post, which):
        if not returned(post):
            return False
        a, b = pre.args
        fl = post.result
        want = {'LABELS': labels_differ(fld(a, 'labels'), fld(b, 'labels')),
                'CAPACITIES': caps_differ(fld(a, 'capacities'), fld(b, 'capacities')),
                'USER_DATA': ud_differ(fld(a, 'user_data'), fld(b, 'user_data'))}[which]
        return Iff(flag_has(fl, WhatsModifiedFlag[which]), want)

    ensures = {
        'flag.LABELS_iff_labels_differ': lambda pre, post: PropDiff._exact(pre, post, 'LABELS'),
        'flag.CAPACITIES_iff_capacities_differ': lambda pre, post: PropDiff._exact(pre, post, 'CAPACITIES'),
        'flag.USER_DATA_iff_json_texts_differ': lambda pre, post: PropDiff._exact(pre, post, 'USER_DATA'),
        'no_other_flag': lambda pre, post: returned(post) and not flag_has(post.result, WhatsModifiedFlag.SUB_INTERFACES),
    }


def names_of(coll):
    """names (resource_name) of the slivers in a set / list of slivers or of (sliver, flag) tuples"""
    out = []
    for x in items(coll):
        s = x[0] if isinstance(x, tuple) else x
        out.append(fld(s, 'resource_name'))
    return sorted(out)


def children(sl, info_field, dict_field):
    info = fld(sl, info_field)
    if info is None:
        return {}
    d = fld(info, dict_field)
    return {k: fld(d, k) for k in keys(d)}


def structure_clauses(kind_fields, result_field):
    """added / removed exactness for one child kind; kind_fields = (info attr, dict attr), result_field in TopologyDiffTuple"""
    info_field, dict_field = kind_fields

    def added(pre, post):
        if not returned(post):
            return False
        old, new = children(pre.args[0], info_field, dict_field), children(pre.args[1], info_field, dict_field)
        want = sorted(set(new) - set(old))
        got = [] if post.result is None else names_of(fld(fld(post.result, 'added'), result_field))
        return got == want

    def removed(pre, post):
        if not returned(post):
            return False
        old, new = children(pre.args[0], info_field, dict_field), children(pre.args[1], info_field, dict_field)
        want = sorted(set(old) - set(new))
        got = [] if post.result is None else names_of(fld(fld(post.result, 'removed'), result_field))
        return got == want
    return added, removed


def any_prop_differs(a, b):
    return Or(labels_differ(fld(a, 'labels'), fld(b, 'labels')), caps_differ(fld(a, 'capacities'), fld(b, 'capacities')),
              ud_differ(fld(a, 'user_data'), fld(b, 'user_data')))


def modified_clause(kind_fields, result_field, deep=None):
    info_field, dict_field = kind_fields

    def modified(pre, post):
        if not returned(post):
            return False
        old, new = children(pre.args[0], info_field, dict_field), children(pre.args[1], info_field, dict_field)
        out = []
        got = {} if post.result is None else {fld(t[0], 'resource_name'): t[1] for t in items(fld(fld(post.result, 'modified'), result_field))}
        for n in sorted(set(old) & set(new)):
            changed = any_prop_differs(old[n], new[n])
            if deep is not None:
                changed = Or(changed, deep(old[n], new[n]))
            out.append(Iff(n in got, changed))
            if n in got:
                fl = got[n]
                out.append(And(Iff(flag_has(fl, WhatsModifiedFlag.LABELS), labels_differ(fld(old[n], 'labels'), fld(new[n], 'labels'))),
                               Iff(flag_has(fl, WhatsModifiedFlag.CAPACITIES), caps_differ(fld(old[n], 'capacities'), fld(new[n], 'capacities'))),
                               Iff(flag_has(fl, WhatsModifiedFlag.USER_DATA), ud_differ(fld(old[n], 'user_data'), fld(new[n], 'user_data')))))
        for n in got:
            out.append(n in old and n in new)
        return And(*out)
    return modified


def none_iff_nothing(kinds):
    def c(pre, post):
        if not returned(post):
            return False
        a, b = pre.args
        diffs = [any_prop_differs(a, b)]
        for (info_field, dict_field), deep in kinds:
            old, new = children(a, info_field, dict_field), children(b, info_field, dict_field)
            diffs.append(set(old) != set(new))
            for n in set(old) & set(new):
                diffs.append(any_prop_differs(old[n], new[n]))
                if deep is not None:
                    diffs.append(deep(old[n], new[n]))
        return Iff(post.result is None, Not(Or(*diffs)))
    return c


def gen_children(g, cls, side, names, container_cls, dict_field, with_props_on=(), **extra):
    """-> info object or None, with any subset of `names` present"""
    if g.choice(2, f'{side}: {container_cls.__name__} present?') == 1:
        return None
    d = PDict()
    for n in names:
        if g.choice(2, f'{side}: {n}?') == 0:
            d.e[n] = [True, mk_sliver(g, cls, f'{side}/{n}', props=(n in with_props_on), **extra)]
    f = blank(container_cls)
    f[dict_field] = d
    if container_cls is AttachedComponentsInfo:
        f['by_type'] = PDict()
    return PObj(container_cls, f)


COMP = ('attached_components_info', 'devices')
NS = ('network_service_info', 'network_services')
IFS = ('interface_info', 'interfaces')


class NodeDiff(Contract):
    target = 'fim.slivers.network_node:NodeSliver.diff'
    extra_targets = (TB + 'prop_diff', TB + '_dict_diff', TB + '_dict_common', TB + '__eq__', TB + '__hash__')
    props = ('C17',)
    max_paths = 60000
    cost = 30

    def inputs(self, g):
        slivers = []
        for side in ('old', 'new'):
            comps = gen_children(g, ComponentSliver, side, ['c1', 'c2'], AttachedComponentsInfo, 'devices', with_props_on=('c1',),
                                 resource_type=ComponentType.GPU)
            nss = gen_children(g, NetworkServiceSliver, side, ['s1'], NetworkServiceInfo, 'network_services', with_props_on=())
            slivers.append(mk_sliver(g, NodeSliver, side, props=False, resource_name='n', attached_components_info=comps,
                                     network_service_info=nss))
        return slivers, {}

    def body(self, h, a, b):
        return h.call(NodeSliver.diff, a, b)

    _ca, _cr = structure_clauses(COMP, 'components')
    _sa, _sr = structure_clauses(NS, 'services')
    ensures = {
        'components.added_exact': _ca, 'components.removed_exact': _cr,
        'services.added_exact': _sa, 'services.removed_exact': _sr,
        'components.modified_exact': modified_clause(COMP, 'components'),
        'services.modified_exact': modified_clause(NS, 'services'),
        'none_iff_nothing_differs': none_iff_nothing([(COMP, None), (NS, None)]),
    }


class NodeDiffSmartNIC(Contract):
    """node with one SmartNIC (present on both sides) whose internal service has the port p1: whatever changes below the
    card -- the port's own labels / capacities / user data, the ports that exist -- makes the node diff report the card
    (flag SUB_INTERFACES), and nothing else does"""
    target = 'fim.slivers.network_node:NodeSliver.diff'
    extra_targets = ('fim.slivers.network_service:NetworkServiceSliver.diff', TB + 'prop_diff')
    props = ('C17',)
    max_paths = 60000
    cost = 30

    def inputs(self, g):
        slivers = []
        for side in ('old', 'new'):
            ifs = gen_children(g, InterfaceSliver, side, ['p1', 'p2'], InterfaceInfo, 'interfaces', with_props_on=('p1',),
                               resource_type=InterfaceType.DedicatedPort)
            if ifs is None:
                ifs = PObj(InterfaceInfo, {'interfaces': PDict()})
            ns = mk_sliver(g, NetworkServiceSliver, f'{side}/nic-ns', props=False, resource_name='nic-ns', interface_info=ifs)
            nsi = blank(NetworkServiceInfo)
            nsi['network_services'] = PDict({'nic-ns': ns})
            card = mk_sliver(g, ComponentSliver, f'{side}/nic', props=False, resource_name='nic', resource_type=ComponentType.SmartNIC,
                             network_service_info=PObj(NetworkServiceInfo, nsi))
            ci = blank(AttachedComponentsInfo)
            ci['devices'] = PDict({'nic': card})
            ci['by_type'] = PDict()
            slivers.append(mk_sliver(g, NodeSliver, side, props=False, resource_name='n',
                                     attached_components_info=PObj(AttachedComponentsInfo, ci)))
        return slivers, {}

    def body(self, h, a, b):
        return h.call(NodeSliver.diff, a, b)

    @staticmethod
    def _below(sl):
        card = fld(fld(fld(sl, 'attached_components_info'), 'devices'), 'nic')
        return fld(fld(fld(card, 'network_service_info'), 'network_services'), 'nic-ns')

    @staticmethod
    def _c(pre, post):
        if not returned(post):
            return False
        na, nb = NodeDiffSmartNIC._below(pre.args[0]), NodeDiffSmartNIC._below(pre.args[1])
        old, new = children(na, 'interface_info', 'interfaces'), children(nb, 'interface_info', 'interfaces')
        diffs = [set(old) != set(new)]
        for n in set(old) & set(new):
            diffs.append(any_prop_differs(old[n], new[n]))
        changed = Or(*diffs)
        if post.result is None:
            return Not(changed)
        mods = items(fld(fld(post.result, 'modified'), 'components'))
        hit = [t for t in mods if fld(t[0], 'resource_name') == 'nic']
        if not hit:
            return Not(changed)
        return And(len(hit) == 1, changed, flag_has(hit[0][1], WhatsModifiedFlag.SUB_INTERFACES))

    ensures = {'card_reported_iff_something_below_it_differs': lambda pre, post: NodeDiffSmartNIC._c(pre, post)}


class ServiceDiff(Contract):
    target = 'fim.slivers.network_service:NetworkServiceSliver.diff'
    extra_targets = (TB + 'prop_diff', TB + '_dict_diff', TB + '_dict_common')
    props = ('C17',)
    max_paths = 60000
    cost = 20

    def inputs(self, g):
        slivers = []
        for side in ('old', 'new'):
            ifs = gen_children(g, InterfaceSliver, side, ['i1', 'i2'], InterfaceInfo, 'interfaces', with_props_on=('i1',),
                               resource_type=InterfaceType.SharedPort)
            slivers.append(mk_sliver(g, NetworkServiceSliver, side, props=False, resource_name='s', interface_info=ifs))
        return slivers, {}

    def body(self, h, a, b):
        return h.call(NetworkServiceSliver.diff, a, b)

    _ia, _ir = structure_clauses(IFS, 'interfaces')
    ensures = {'interfaces.added_exact': _ia, 'interfaces.removed_exact': _ir,
               'interfaces.modified_exact': modified_clause(IFS, 'interfaces'),
               'none_iff_nothing_differs': none_iff_nothing([(IFS, None)])}


def subif_differs(a, b):
    """a dedicated port changed iff its sub-interfaces differ (names added / removed, or tracked properties of common ones)"""
    old, new = children(a, 'interface_info', 'interfaces'), children(b, 'interface_info', 'interfaces')
    out = [set(old) != set(new)]
    for n in set(old) & set(new):
        out.append(any_prop_differs(old[n], new[n]))
    return Or(*out)


class DedicatedPortDiff(Contract):
    """service whose interface i1 is a dedicated port with sub-interfaces: SUB_INTERFACES is reported exactly when they differ"""
    target = 'fim.slivers.network_service:NetworkServiceSliver.diff'
    extra_targets = ('fim.slivers.interface_info:InterfaceSliver.diff',)
    props = ('C17',)
    max_paths = 60000
    cost = 20

    def inputs(self, g):
        slivers = []
        for side in ('old', 'new'):
            sub = gen_children(g, InterfaceSliver, side, ['sub1', 'sub2'], InterfaceInfo, 'interfaces', with_props_on=('sub1',),
                               resource_type=InterfaceType.SubInterface)
            # the port's own labels may change as well (a combined edit): that is a LABELS change, not a sub-interface change
            port = mk_sliver(g, InterfaceSliver, f'{side}/i1', props=False, resource_type=InterfaceType.DedicatedPort,
                             interface_info=sub, labels=mk_labels(g, f'{side}/i1') if g.choice(2, f'{side} port has labels?') == 0 else None)
            info = PObj(InterfaceInfo, {'interfaces': PDict({'i1': port})})
            slivers.append(mk_sliver(g, NetworkServiceSliver, side, props=False, resource_name='s', interface_info=info))
        return slivers, {}

    def body(self, h, a, b):
        return h.call(NetworkServiceSliver.diff, a, b)

    @staticmethod
    def _c(pre, post):
        if not returned(post):
            return False
        pa = fld(fld(fld(pre.args[0], 'interface_info'), 'interfaces'), 'i1')
        pb = fld(fld(fld(pre.args[1], 'interface_info'), 'interfaces'), 'i1')
        changed = subif_differs(pa, pb)
        own = labels_differ(fld(pa, 'labels'), fld(pb, 'labels'))
        if post.result is None:
            return And(Not(changed), Not(own))
        mods = items(fld(fld(post.result, 'modified'), 'interfaces'))
        hit = [t for t in mods if fld(t[0], 'resource_name') == 'i1']
        if not hit:
            return And(Not(changed), Not(own))
        f = hit[0][1]
        return And(len(hit) == 1, Or(changed, own), Iff(changed, flag_has(f, WhatsModifiedFlag.SUB_INTERFACES)),
                   Iff(own, flag_has(f, WhatsModifiedFlag.LABELS)))

    ensures = {'sub_interfaces_flag_iff_they_differ': lambda pre, post: DedicatedPortDiff._c(pre, post)}


class AntiSymmetry(Contract):
    """what is 'added' from old to new is what is 'removed' from new to old"""
    target = 'fim.slivers.network_node:NodeSliver.diff'
    props = ('C17',)
    max_paths = 60000
    cost = 30

    def inputs(self, g):
        return NodeDiff.inputs(self, g)

    def body(self, h, a, b):
        return (h.call(NodeSliver.diff, a, b), h.call(NodeSliver.diff, b, a))

    @staticmethod
    def _c(pre, post):
        if not returned(post):
            return False
        ab, ba = post.result
        out = []
        for field in ('components', 'services'):
            add_ab = [] if ab is None else names_of(fld(fld(ab, 'added'), field))
            rem_ab = [] if ab is None else names_of(fld(fld(ab, 'removed'), field))
            add_ba = [] if ba is None else names_of(fld(fld(ba, 'added'), field))
            rem_ba = [] if ba is None else names_of(fld(fld(ba, 'removed'), field))
            out.append(add_ab == rem_ba and rem_ab == add_ba)
        return And(*out)

    ensures = {'added_old_to_new_is_removed_new_to_old': lambda pre, post: AntiSymmetry._c(pre, post)}


class SelfCopy(Contract):
    """comparing a sliver with an identical copy of itself reports no difference"""
    target = 'fim.slivers.network_node:NodeSliver.diff'
    props = ('C17',)
    max_paths = 60000
    cost = 10

    def inputs(self, g):
        comps = gen_children(g, ComponentSliver, 'x', ['c1', 'c2'], AttachedComponentsInfo, 'devices', with_props_on=('c1',),
                             resource_type=ComponentType.GPU)
        nss = gen_children(g, NetworkServiceSliver, 'x', ['s1'], NetworkServiceInfo, 'network_services', with_props_on=('s1',))
        a = mk_sliver(g, NodeSliver, 'x', props=True, resource_name='n', attached_components_info=comps, network_service_info=nss)
        from pyvc.harness import snapshot
        return [a, snapshot(a)], {}

    def body(self, h, a, b):
        return h.call(NodeSliver.diff, a, b)

    ensures = {'identical_copy_no_difference': lambda pre, post: returned(post) and post.result is None}


CONTRACTS = [PropDiff, NodeDiff, NodeDiffSmartNIC, ServiceDiff, DedicatedPortDiff, AntiSymmetry, SelfCopy]
