"""
C12 -- Delegations and pools survive encoding and regrouping unchanged.

Delegations.to_json / from_json, Delegation.set_details, Delegations.add_delegations and the Pools regrouping functions are
executed on their real source: delegation ids, pool names and node ids are symbolic identifiers, capacity / label details are
symbolic values of the constructor domain.  Containers hold 1..2 delegations; pool families have <= 2 pools over <= 3 nodes.
"""
import z3

from pyvc.harness import Contract
from pyvc.spec import (And, Or, Not, Implies, Iff, eq, same, returned, raised, fld, has, keys, values, items, forall, is_none,
                       same_obj, fields_same)
from pyvc.values import PObj, PDict, PList, PSet, atom_code
from fim.slivers.delegations import (Delegation, Delegations, DelegationType, DelegationFormat, DelegationException, Pool, Pools,
                                     PoolException)
from fim.slivers.capacities_labels import Capacities, Labels

T = 'fim.slivers.delegations:'
CAPF = list(Capacities().__dict__.keys())
LABF = list(Labels().__dict__.keys())
BOUND = 'containers of 1..2 delegations; pool families of <= 2 pools over <= 3 nodes'


def details(g, atype, name):
    if atype is DelegationType.CAPACITY:
        f = {k: 0 for k in CAPF}
        f['core'] = g.int(f'{name}.core', lo=0)
        f['ram'] = g.int(f'{name}.ram', lo=0)
        return PObj(Capacities, f)
    f = {k: None for k in LABF}
    if g.choice(2, f'{name} has local_name?') == 0:
        f['local_name'] = g.str(f'{name}.local_name')
    if g.choice(2, f'{name} has instance?') == 0:
        f['instance'] = g.str(f'{name}.instance')
    return PObj(Labels, f)


def not_reserved(g, a):
    g.assume(a.t != z3.IntVal(atom_code('_')))          # "_" is the reserved name of the single-resource pool
    return a


def mk_delegation(g, atype, name, did):
    fmt = g.pick(list(DelegationFormat), f'{name} format')
    pool = None if fmt is DelegationFormat.SinglePool else not_reserved(g, g.atom(f'{name}.pool'))
    det = None if fmt is DelegationFormat.PoolReference else details(g, atype, name)
    return PObj(Delegation, dict(type=atype, format=fmt, delegation_id=did, delegation_details=det, pool_id=pool))


def mk_delegations(g, atype=None):
    atype = atype or g.pick(list(DelegationType), 'type')
    n = 1 + g.choice(2, 'one or two delegations')
    d = PDict()
    ids = []
    for i in range(n):
        did = g.atom(f'id{i}')
        for o in ids:
            g.assume(did.t != o.t)
        ids.append(did)
        d.e[did] = [True, mk_delegation(g, atype, f'd{i}', did)]
    return PObj(Delegations, dict(type=atype, delegations=d))


def details_same(a, b):
    if a is None or b is None:
        return a is None and b is None
    fields = CAPF if (a.cls if isinstance(a, PObj) else type(a)) is Capacities else LABF
    return And(*[same(fld(a, f), fld(b, f)) for f in fields])


def delegation_same(a, b):
    return And(fld(a, 'type') is fld(b, 'type'), fld(a, 'format') is fld(b, 'format'), eq(fld(a, 'delegation_id'), fld(b, 'delegation_id')),
               (fld(a, 'pool_id') is None and fld(b, 'pool_id') is None) if fld(a, 'format') is DelegationFormat.SinglePool
               else eq(fld(a, 'pool_id'), fld(b, 'pool_id')),
               details_same(fld(a, 'delegation_details'), fld(b, 'delegation_details')))


class DelegationsRoundTrip(Contract):
    target = T + 'Delegations.to_json'
    extra_targets = (T + 'Delegations.from_json', T + 'Delegation.__init__', T + 'Delegation.set_details',
                     T + 'Delegations.add_delegations', T + 'Delegation.get_details_as_dict')
    props = ('C12',)
    bounded = BOUND
    max_paths = 60000
    cost = 30

    def inputs(self, g):
        return [mk_delegations(g)], {}

    def body(self, h, ds):
        s = h.call(Delegations.to_json, ds)
        t = ds.d.e['type'][1] if isinstance(ds, PObj) else ds.type
        back = h.call(Delegations.from_json, json_str=s, atype=t)
        return (s, back)

    @staticmethod
    def _c(pre, post):
        if not returned(post):
            return False
        ds = pre.args[0]
        s, back = post.result
        if back is None:
            return False
        d0, d1 = fld(ds, 'delegations'), fld(back, 'delegations')
        k0, k1 = keys(d0), keys(d1)
        if len(k0) != len(k1):
            return False
        return And(fld(back, 'type') is fld(ds, 'type'),
                   *[And(eq(a, b), delegation_same(fld(d0, a), fld(d1, b))) for a, b in zip(k0, k1)])

    ensures = {'deleg.rt_same_ids_formats_pools_details': lambda pre, post: DelegationsRoundTrip._c(pre, post),
               'deleg.encode_pure': lambda pre, post: len(keys(fld(post.args[0], 'delegations'))) == len(keys(fld(pre.args[0], 'delegations')))}


class SetDetailsRejects(Contract):
    """mixing label and capacity content, or details on a reference, is always rejected; the right kind is stored"""
    target = T + 'Delegation.set_details'
    props = ('C12',)

    def inputs(self, g):
        atype = g.pick(list(DelegationType), 'delegation type')
        fmt = g.pick(list(DelegationFormat), 'format')
        d = PObj(Delegation, dict(type=atype, format=fmt, delegation_id=g.atom('id'), delegation_details=None,
                                  pool_id=None if fmt is DelegationFormat.SinglePool else g.atom('pool')))
        what = g.pick(list(DelegationType), 'kind of the details object')
        return [d, details(g, what, 'det')], {}

    def body(self, h, d, det):
        return h.call(Delegation.set_details, d, det)

    @staticmethod
    def _c(pre, post):
        d, det = pre.args
        kind = DelegationType.CAPACITY if (det.cls if isinstance(det, PObj) else type(det)) is Capacities else DelegationType.LABEL
        ok = fld(d, 'format') is not DelegationFormat.PoolReference and kind is fld(d, 'type')
        if ok:
            return And(returned(post), same_obj(fld(post.args[0], 'delegation_details'), post.args[1]))
        return And(raised(post, DelegationException), fld(post.args[0], 'delegation_details') is None)

    ensures = {'deleg.reject_wrong_kind_and_details_on_reference': lambda pre, post: SetDetailsRejects._c(pre, post)}


class AddDelegationsRejects(Contract):
    """duplicate ids and members of the other type are always rejected; otherwise the member is stored under its id"""
    target = T + 'Delegations.add_delegations'
    props = ('C12',)
    bounded = BOUND

    def inputs(self, g):
        ds = mk_delegations(g)
        mtype = g.pick(list(DelegationType), 'member type')
        did = g.atom('newid')
        return [ds, mk_delegation(g, mtype, 'm', did)], {}

    def body(self, h, ds, m):
        return h.call(Delegations.add_delegations, ds, m)

    @staticmethod
    def _c(pre, post):
        ds, m = pre.args
        d0, d1 = fld(ds, 'delegations'), fld(post.args[0], 'delegations')
        dup = Or(*[eq(k, fld(m, 'delegation_id')) for k in keys(d0)])
        bad_type = fld(m, 'type') is not fld(ds, 'type')
        if not returned(post):
            return And(Or(dup, bad_type), len(keys(d1)) == len(keys(d0)))
        return And(Not(dup), not bad_type, len(keys(d1)) == len(keys(d0)) + 1,
                   same_obj(fld(d1, keys(d1)[-1]), post.args[1]) if len(keys(d1)) == len(keys(d0)) + 1 else False)

    ensures = {'deleg.reject_duplicate_id_and_mixed_type': lambda pre, post: AddDelegationsRejects._c(pre, post)}


class DecodeTwiceIndependent(Contract):
    """history: the same text is decoded, the decoded container is edited (an entry removed), and the text is decoded again:
    the second decoding gives all the delegations of the text -- decoded values do not share state"""
    target = T + 'Delegations.from_json'
    extra_targets = (T + 'Delegations.remove_by_id',)
    props = ('C12',)
    bounded = BOUND + '; one edit between two decodings'
    max_paths = 20000
    cost = 20

    def inputs(self, g):
        return [mk_delegations(g, g.pick(list(DelegationType), 'type'))], {}

    def body(self, h, ds):
        s = h.call(Delegations.to_json, ds)
        t = ds.d.e['type'][1] if isinstance(ds, PObj) else ds.type
        first = h.call(Delegations.from_json, json_str=s, atype=t)
        k = keys(fld(first, 'delegations'))
        h.call(Delegations.remove_by_id, first, k[0])
        second = h.call(Delegations.from_json, json_str=s, atype=t)
        return (len(k), len(keys(fld(first, 'delegations'))), second)

    @staticmethod
    def _c(pre, post):
        if not returned(post):
            return False
        n, n_first, second = post.result
        d0, d1 = fld(pre.args[0], 'delegations'), fld(second, 'delegations')
        return And(n_first == n - 1, len(keys(d1)) == len(keys(d0)),
                   *[Or(*[And(eq(a, b), delegation_same(fld(d0, a), fld(d1, b))) for b in keys(d1)]) for a in keys(d0)])

    ensures = {'decode.twice_gives_independent_values': lambda pre, post: DecodeTwiceIndependent._c(pre, post)}


class AddTwoDelegationsInOneCall(Contract):
    """add_delegations(m1, m2): the two members are judged one after the other -- a duplicate id (against the container or
    between the two arguments) and a member of the other type are rejected; every member stored is one of the arguments"""
    target = T + 'Delegations.add_delegations'
    props = ('C12',)
    bounded = BOUND + '; two members in one call'

    def inputs(self, g):
        # the container holds one single-resource delegation; the members are single-resource / pool reference (the id
        # bookkeeping does not look at formats or details)
        t = g.pick(list(DelegationType), 'type')
        zero = lambda: PObj(Capacities, {k: 0 for k in CAPF}) if t is DelegationType.CAPACITY else PObj(Labels, {k: None for k in LABF})

        def mk(name, fmt):
            did = g.atom(name)
            return PObj(Delegation, dict(type=t, format=fmt, delegation_id=did, pool_id=None if fmt is DelegationFormat.SinglePool
                                         else not_reserved(g, g.atom(name + '.pool')),
                                         delegation_details=None if fmt is DelegationFormat.PoolReference else zero()))
        d0 = mk('id0', DelegationFormat.SinglePool)
        ds = PObj(Delegations, dict(type=t, delegations=PDict({fld(d0, 'delegation_id'): d0})))
        return [ds, mk('id1', DelegationFormat.SinglePool), mk('id2', g.pick([DelegationFormat.SinglePool, DelegationFormat.PoolReference], 'format'))], {}

    def body(self, h, ds, m1, m2):
        return h.call(Delegations.add_delegations, ds, m1, m2)

    @staticmethod
    def _c(pre, post):
        ds, m1, m2 = pre.args
        d0, d1 = fld(ds, 'delegations'), fld(post.args[0], 'delegations')
        i1, i2 = fld(m1, 'delegation_id'), fld(m2, 'delegation_id')
        dup = Or(eq(i1, i2), *[eq(k, i1) for k in keys(d0)], *[eq(k, i2) for k in keys(d0)])
        # ids under which something is stored afterwards are pairwise distinct and every stored member carries its own key
        ks = keys(d1)
        distinct = And(*[Not(eq(a, b)) for i, a in enumerate(ks) for b in ks[:i]])
        keyed = And(*[eq(k, fld(fld(d1, k), 'delegation_id')) for k in ks])
        if not returned(post):
            return And(dup, distinct, keyed)
        return And(Not(dup), distinct, keyed, len(ks) == len(keys(d0)) + 2)

    ensures = {'deleg.duplicate_ids_within_one_call_rejected': lambda pre, post: AddTwoDelegationsInOneCall._c(pre, post)}


# ------------------------------------------------------------------------------------------- pools
def mk_pools(g):
    atype = g.pick(list(DelegationType), 'type')
    nodes = [g.atom(f'node{i}') for i in range(3)]
    for i in range(3):
        for j in range(i):
            g.assume(nodes[i].t != nodes[j].t)
    dids = [g.atom('delA'), g.atom('delB')]
    g.assume(dids[0].t != dids[1].t)
    pools = PDict()
    n = 1 + g.choice(2, 'one or two pools')
    names = []
    for i in range(n):
        pid = not_reserved(g, g.atom(f'pool{i}'))
        for o in names:
            g.assume(pid.t != o.t)
        names.append(pid)
        on = g.pick(nodes, f'pool{i} defined on')
        others = [x for x in nodes if x is not on]
        sub = g.pick([[others[0]], [others[1]], others], f'pool{i} defined for')
        did = g.pick(dids, f'pool{i} delegation id')
        p = PObj(Pool, dict(type=atype, on_=on, delegation_id=did, for_=PSet(sub), pool_id=pid,
                            pool_details=details(g, atype, f'pool{i}')))
        pools.e[pid] = [True, p]
    return PObj(Pools, dict(pool_by_id=pools, pools_by_delegation=None, pool_type=atype)), nodes


def pool_same(a, b):
    fa, fb = items(fld(a, 'for_')), items(fld(b, 'for_'))
    return And(fld(a, 'type') is fld(b, 'type'), eq(fld(a, 'pool_id'), fld(b, 'pool_id')), eq(fld(a, 'on_'), fld(b, 'on_')),
               eq(fld(a, 'delegation_id'), fld(b, 'delegation_id')), details_same(fld(a, 'pool_details'), fld(b, 'pool_details')),
               len(fa) == len(fb), *[Or(*[eq(x, y) for y in fb]) for x in fa])


class PoolsRegroup(Contract):
    """pools -> per-node delegations -> pools reconstructs the same pools"""
    target = T + 'Pools.generate_delegations_by_node_id'
    extra_targets = (T + 'Pools.build_index_by_delegation_id', T + 'Pools.incorporate_delegation', T + 'Pools.get_pool_by_id',
                     T + 'Pools.add_pool', T + 'Pool.__init__', T + 'Pool.validate_pool')
    props = ('C12',)
    bounded = BOUND
    max_paths = 80000
    cost = 40

    def inputs(self, g):
        P, nodes = mk_pools(g)
        return [P], {}

    def body(self, h, P):
        h.call(Pools.build_index_by_delegation_id, P)
        by_node = h.call(Pools.generate_delegations_by_node_id, P)
        t = P.d.e['pool_type'][1] if isinstance(P, PObj) else P.pool_type
        Q = h.call(Pools, t)
        if isinstance(by_node, PDict):
            pairs = [(k, by_node.e[k][1]) for k in by_node.e]
        else:
            pairs = list(by_node.items())
        for node, deleg in pairs:
            h.call(Pools.incorporate_delegation, Q, node_id=node, deleg=deleg)
        return (by_node, Q)

    @staticmethod
    def _needs_two_entries_under_one_id(P):
        """KF-C12-1: some node would need two delegations under the same delegation id (it defines one pool and defines or
        references another one delegated to the same id) -- the per-node container is keyed by delegation id"""
        ps = values(fld(P, 'pool_by_id'))
        out = []
        for i, p in enumerate(ps):
            for q in ps[i + 1:]:
                same_id = eq(fld(p, 'delegation_id'), fld(q, 'delegation_id'))
                np_ = [fld(p, 'on_')] + items(fld(p, 'for_'))
                nq = [fld(q, 'on_')] + items(fld(q, 'for_'))
                share = Or(*[eq(x, y) for x in np_ for y in nq])
                out.append(And(same_id, share))
        return Or(*out)

    @staticmethod
    def _c(pre, post, allow_known):
        P = pre.args[0]
        collide = PoolsRegroup._needs_two_entries_under_one_id(P)
        if not returned(post):
            return collide if allow_known else False
        by_node, Q = post.result
        p0, p1 = fld(P, 'pool_by_id'), fld(Q, 'pool_by_id')
        if len(keys(p0)) != len(keys(p1)):
            return False
        out = []
        for k in keys(p0):
            out.append(Or(*[And(eq(k, k1), pool_same(fld(p0, k), fld(p1, k1))) for k1 in keys(p1)]))
        return And(*out)

    ensures = {'pools.regroup_reconstructs': lambda pre, post: PoolsRegroup._c(pre, post, False),
               'pools.regroup_reconstructs_or_known_defect_KF-C12-1': lambda pre, post: PoolsRegroup._c(pre, post, True)}


def mk_three_pools(g):
    """three pools on disjoint node sets (so no node needs two entries under one id), delegation ids in every pattern --
    in particular the same id on the first and the last pool with another id in between"""
    atype = g.pick(list(DelegationType), 'type')
    nodes = [g.atom(f'node{i}') for i in range(6)]
    for i in range(6):
        for j in range(i):
            g.assume(nodes[i].t != nodes[j].t)
    dids = [g.atom('delA'), g.atom('delB')]
    g.assume(dids[0].t != dids[1].t)
    pools = PDict()
    names = []
    for i in range(3):
        pid = not_reserved(g, g.atom(f'pool{i}'))
        for o in names:
            g.assume(pid.t != o.t)
        names.append(pid)
        did = g.pick(dids, f'pool{i} delegation id')
        p = PObj(Pool, dict(type=atype, on_=nodes[2 * i], delegation_id=did, for_=PSet([nodes[2 * i + 1]]), pool_id=pid,
                            pool_details=details(g, atype, f'pool{i}')))
        pools.e[pid] = [True, p]
    return PObj(Pools, dict(pool_by_id=pools, pools_by_delegation=None, pool_type=atype))


class PoolsRegroupThree(PoolsRegroup):
    """the same reconstruction for three pools whose delegation ids interleave (A, B, A ...); optionally the registry had been
    indexed before and the first pool was then moved to the other delegation id (the index is rebuilt, not patched)"""
    bounded = 'three pools on disjoint node pairs, delegation ids in all 8 patterns over two ids, optionally re-indexed after an edit'
    max_paths = 40000

    def inputs(self, g):
        P = mk_three_pools(g)
        reindex = g.choice(2, 'indexed before, then the first pool changes its delegation id?') == 0
        other = g.atom('delC')
        return [P, reindex, other], {}

    def body(self, h, P, reindex, other):
        if reindex:
            h.call(Pools.build_index_by_delegation_id, P)
            first = values(fld(P, 'pool_by_id'))[0]
            h.call(Pool.set_delegation_id, first, delegation_id=other)
        return PoolsRegroup.body(self, h, P)

    @staticmethod
    def _c3(pre, post):
        # the expectation speaks about the registry as it is when the delegations are generated
        import types
        return PoolsRegroup._c(types.SimpleNamespace(args=[post.args[0]]), post, False)

    ensures = {'pools.regroup_reconstructs': lambda pre, post: PoolsRegroupThree._c3(pre, post)}


class PoolDefinedOnce(Contract):
    target = T + 'Pools.incorporate_delegation'
    props = ('C12',)
    bounded = BOUND

    def inputs(self, g):
        atype = g.pick(list(DelegationType), 'type')
        pid = not_reserved(g, g.atom('pool'))
        n1, n2 = g.atom('n1'), g.atom('n2')
        g.assume(n1.t != n2.t)

        def dl(name, did):
            d = PObj(Delegation, dict(type=atype, format=DelegationFormat.PoolDefinition, delegation_id=did,
                                      delegation_details=details(g, atype, name), pool_id=pid))
            return PObj(Delegations, dict(type=atype, delegations=PDict({did: d})))
        P = PObj(Pools, dict(pool_by_id=PDict(), pools_by_delegation=None, pool_type=atype))
        return [P, n1, dl('a', g.atom('ida')), n2, dl('b', g.atom('idb'))], {}

    def body(self, h, P, n1, d1, n2, d2):
        h.call(Pools.incorporate_delegation, P, node_id=n1, deleg=d1)
        return h.attempt(Pools.incorporate_delegation, P, node_id=n2, deleg=d2)

    @staticmethod
    def _c(pre, post):
        if not returned(post):
            return False
        st, val = post.result
        cls = val.cls if isinstance(val, PObj) else type(val)
        P = post.args[0]
        p = values(fld(P, 'pool_by_id'))
        return And(st == 'exc' and issubclass(cls, PoolException), len(p) == 1 and eq(fld(p[0], 'on_'), pre.args[1]))

    ensures = {'pools.second_definition_rejected': lambda pre, post: PoolDefinedOnce._c(pre, post)}


CONTRACTS = [DelegationsRoundTrip, SetDetailsRejects, AddDelegationsRejects, DecodeTwiceIndependent, AddTwoDelegationsInOneCall, PoolsRegroup, PoolsRegroupThree, PoolDefinedOnce]
