"""
C14 -- Combined broker model: merge is order-independent and unmerge is its inverse.

The real merge_adm / unmerge_adm / _update_node_delegations (fim/graph/resources/neo4j_cbm.py) and snapshot / rollback
(abc_cbm.py) are executed THROUGH THE ABSTRACT GRAPH INTERFACE on the in-memory shared store: the method bodies run with `self`
being a combined-model handle whose graph operations are the NetworkX back end (the "crude typecast" to Neo4jADMGraph inside
merge_adm is a handle on the same graph id -- substituted by the NetworkX ADM class, stated assumption).  Two small delegation
models sharing a stitching element (delegation values and stitch-node content symbolic) are merged in both orders, unmerged,
snapshotted and rolled back; the combined model is compared canonically (by NodeID; contributor lists as sets).
"""
import copy
import json

import z3

from pyvc.harness import Contract, snapshot
from pyvc.spec import And, Or, Not, Implies, Iff, eq, same, returned, raised
from pyvc.values import PObj, PDict, PList, JsonText, LockVal, is_sym
from contracts import graphmodel as gm
from contracts.graphmodel import (g_nodes, g_attr, g_attrs, g_edges, g_eattrs, g_has_edge, fldv, a_get, a_keys, same_val, build_graph)
from contracts.C13 import deleg_json, CAP, LAB, deleg_ids
from fim.graph.networkx_property_graph import NetworkXPropertyGraph, NetworkXGraphImporter
from fim.graph.resources.networkx_adm import NetworkXADMGraph
from fim.graph.resources.neo4j_cbm import Neo4jCBMGraph
from fim.graph.resources.abc_cbm import ABCCBMPropertyGraph
import fim.graph.resources.neo4j_cbm as neo4j_cbm_mod
from fim.graph.resources.neo4j_adm import Neo4jADMGraph

LEVEL = 'other'
BOUND = 'two delegation models of <= 3 elements sharing one stitching element; delegation details and ids symbolic'
SI = 'StructuralInfo'


class CBMOverNX(NetworkXPropertyGraph):
    """the REAL combined-model methods, bound to the in-memory back end (nothing is re-implemented)"""
    merge_adm = Neo4jCBMGraph.merge_adm
    unmerge_adm = Neo4jCBMGraph.unmerge_adm
    _update_node_delegations = Neo4jCBMGraph._update_node_delegations
    snapshot = ABCCBMPropertyGraph.snapshot
    rollback = ABCCBMPropertyGraph.rollback


def cast_summary(I, args, kw):
    """Neo4jADMGraph(graph_id, importer, logger): a handle on the same graph id (here: the NetworkX ADM class)"""
    return I.call(NetworkXADMGraph, args, kw)


SUMMARIES = {'fim.graph.resources.neo4j_adm:Neo4jADMGraph': cast_summary}


def gen_world(g):
    """store with ADM A = {x (shared), a1}, ADM B = {x, b1}; edges x-a1, x-b1; the combined model is empty"""
    gA, gB, gC = g.atom('admA'), g.atom('admB'), g.atom('cbm')
    g.assume(z3.And(gA.t != gB.t, gA.t != gC.t, gB.t != gC.t))
    nodes = []

    def node(key, gid, nid, cls, typ, delegated, name):
        attrs = dict(GraphID=gid, NodeID=nid, Class=cls, Type=typ, Name=nid, StitchNode='true' if nid == 'x' else 'false')
        if delegated:
            which = g.pick(['capacity only', 'both'], f'delegations on {name}')
            did = g.atom(f'did_{name}')
            attrs[CAP] = deleg_json(g, did, CAP, name)
            if which == 'both':
                attrs[LAB] = deleg_json(g, did, LAB, name)
        nodes.append((key, attrs))
    node(1, gA, 'x', 'NetworkNode', 'Facility', False, 'xA')
    node(2, gA, 'a1', 'NetworkNode', 'Server', True, 'a1')
    node(3, gB, 'x', 'NetworkNode', 'Facility', g.choice(2, 'the second model delegates on the shared element?') == 0, 'xB')
    node(4, gB, 'b1', 'NetworkNode', 'Server', True, 'b1')
    edges = [(1, 2, {'Class': 'connects'}), (3, 4, {'Class': 'connects'})]
    G = build_graph(nodes, edges)
    store = PObj(gm.SHARED, dict(graphs=G, start_id=10, log=None, lock=LockVal()))
    imp = PObj(NetworkXGraphImporter, dict(storage=store, graph_class=NetworkXPropertyGraph, log=None))
    mk = lambda cls, gid: PObj(cls, dict(graph_id=gid, importer=imp, log=__import__('pyvc.values', fromlist=['Foreign']).Foreign(None), storage=store))
    return mk(CBMOverNX, gC), mk(NetworkXADMGraph, gA), mk(NetworkXADMGraph, gB)


def gen_world2(g):
    """two shared elements: ADM A = {x, y, a1} with x-a1, y-a1; ADM B = {x, y, b1} with x-b1 and the connection x-y that
    only B has"""
    gA, gB, gC = g.atom('admA'), g.atom('admB'), g.atom('cbm')
    g.assume(z3.And(gA.t != gB.t, gA.t != gC.t, gB.t != gC.t))
    nodes = []

    def node(key, gid, nid, typ, delegated, name):
        attrs = dict(GraphID=gid, NodeID=nid, Class='NetworkNode', Type=typ, Name=nid, StitchNode='true' if nid in ('x', 'y') else 'false')
        if delegated:
            did = g.atom(f'did_{name}')
            attrs[CAP] = deleg_json(g, did, CAP, name)
        nodes.append((key, attrs))
    node(1, gA, 'x', 'Facility', False, 'xA')
    node(2, gA, 'y', 'Facility', False, 'yA')
    node(3, gA, 'a1', 'Server', True, 'a1')
    node(4, gB, 'x', 'Facility', True, 'xB')
    node(5, gB, 'y', 'Facility', False, 'yB')
    node(6, gB, 'b1', 'Server', True, 'b1')
    edges = [(1, 3, {'Class': 'connects'}), (2, 3, {'Class': 'connects'}), (4, 6, {'Class': 'connects'}), (4, 5, {'Class': 'connects'})]
    G = build_graph(nodes, edges)
    store = PObj(gm.SHARED, dict(graphs=G, start_id=10, log=None, lock=LockVal()))
    imp = PObj(NetworkXGraphImporter, dict(storage=store, graph_class=NetworkXPropertyGraph, log=None))
    mk = lambda cls, gid: PObj(cls, dict(graph_id=gid, importer=imp, log=__import__('pyvc.values', fromlist=['Foreign']).Foreign(None), storage=store))
    return mk(CBMOverNX, gC), mk(NetworkXADMGraph, gA), mk(NetworkXADMGraph, gB)


def view(handle_or_graph, gid=None):
    """canonical content of graph gid: {NodeID: {prop: value}} (GraphID dropped, contributor list as a sorted tuple,
    delegation properties as {id: details}) and the set of edges by NodeID"""
    if gid is None:
        G = fldv(fldv(handle_or_graph, 'storage'), 'graphs')
        gid = fldv(handle_or_graph, 'graph_id')
    else:
        G = handle_or_graph
    ids = {}
    for n in g_nodes(G):
        v = g_attr(G, n, 'GraphID')
        if (v is gid) if (is_sym(v) or is_sym(gid)) else (v == gid):
            ids[n] = g_attr(G, n, 'NodeID')
    nodes = {ids[n]: g_attrs(G, n) for n in ids}
    edges = sorted(tuple(sorted((ids[a], ids[b]))) for a, b in g_edges(G) if a in ids and b in ids)
    return nodes, edges


def contributors(attrs):
    t = a_get(attrs, SI)
    if t is None:
        return None
    if isinstance(t, JsonText):
        v = t.value.e.get('adm_graph_ids')
        return None if v is None else list(v[1].items)
    return json.loads(t).get('adm_graph_ids') if t else None


def same_members(xs, ys):
    if xs is None or ys is None:
        return xs is None and ys is None
    return And(*[Or(*[eq(x, y) for y in ys]) for x in xs], *[Or(*[eq(x, y) for x in xs]) for y in ys])


def deleg_map(t):
    if t is None or t == '':
        return {}
    if isinstance(t, JsonText):
        return {k: v[1] for k, v in t.value.e.items()}
    return json.loads(t)


def maps_same(m0, m1):
    from pyvc import models
    k0, k1 = list(m0), list(m1)
    if len(k0) != len(k1):
        return False
    out = []
    for a in k0:
        alts = []
        for b in k1:
            va, vb = m0[a], m1[b]
            if isinstance(va, PDict) or isinstance(vb, PDict):
                alts.append(And(eq(a, b), models.json_value_eq(None, va, vb, False)))
            else:
                alts.append(And(eq(a, b), va == vb))
        out.append(Or(*alts))
    return And(*out)


def views_same(v0, v1):
    (n0, e0), (n1, e1) = v0, v1
    if set(n0) != set(n1) or e0 != e1:
        return False
    out = []
    for nid in n0:
        a0, a1 = n0[nid], n1[nid]
        ks = (set(a_keys(a0)) | set(a_keys(a1))) - {'GraphID'}
        for p in ks:
            x, y = a_get(a0, p), a_get(a1, p)
            if p == SI:
                out.append(same_members(contributors(a0), contributors(a1)))
            elif p in (CAP, LAB):
                out.append(maps_same(deleg_map(x), deleg_map(y)))
            else:
                if p not in a_keys(a0) or p not in a_keys(a1):
                    return False
                out.append(same_val(x, y))
    return And(*out)


def snap(h, handle):
    """copy of the current content of the handle's graph (canonical view over copied attribute maps)"""
    G = fldv(fldv(handle, 'storage'), 'graphs')
    gid = fldv(handle, 'graph_id')
    Gc = snapshot(G) if h.mode == 'sym' else copy.deepcopy(G)
    return view(Gc, gid if h.mode != 'sym' else gid)


class _Patch:
    """replay mode: the typecast inside merge_adm yields a NetworkX ADM handle on the same graph id"""

    def __init__(self, h):
        self.h = h

    def __enter__(self):
        if self.h.mode != 'sym':
            self.old = neo4j_cbm_mod.Neo4jADMGraph
            neo4j_cbm_mod.Neo4jADMGraph = NetworkXADMGraph

    def __exit__(self, *a):
        if self.h.mode != 'sym':
            neo4j_cbm_mod.Neo4jADMGraph = self.old
        return False


def run(h, f):
    with _Patch(h):
        return f()


class MergeContracts(Contract):
    target = 'fim.graph.resources.neo4j_cbm:Neo4jCBMGraph.merge_adm'
    extra_targets = ('fim.graph.resources.neo4j_cbm:Neo4jCBMGraph._update_node_delegations',
                     'fim.graph.resources.neo4j_cbm:Neo4jCBMGraph.unmerge_adm',
                     'fim.graph.resources.abc_cbm:ABCCBMPropertyGraph.snapshot', 'fim.graph.resources.abc_cbm:ABCCBMPropertyGraph.rollback',
                     'fim.graph.resources.abc_adm:ABCADMPropertyGraph.rewrite_delegations')
    props = ('C14',)
    bounded = BOUND
    summaries = SUMMARIES
    max_paths = 20000
    cost = 60
    crosscheck_result_only = True

    def inputs(self, g):
        cbm, a, b = gen_world(g)
        cbm2, a2, b2 = snapshot((cbm, a, b))
        cbm3, a3, b3 = snapshot((cbm, a, b))
        return [cbm, a, b, cbm2, a2, b2, cbm3, a3, b3], {}

    def body(self, h, cbm, a, b, cbm2, a2, b2, cbm3, a3, b3):
        def go():
            srcA0, srcB0 = snap(h, a), snap(h, b)
            h.call(CBMOverNX.merge_adm, cbm, adm=a)
            afterA = snap(h, cbm)
            sid = h.call(CBMOverNX.snapshot, cbm)
            h.call(CBMOverNX.merge_adm, cbm, adm=b)
            afterAB = snap(h, cbm)
            srcA1, srcB1 = snap(h, a), snap(h, b)
            # the other order, on an identical second world
            h.call(CBMOverNX.merge_adm, cbm2, adm=b2)
            h.call(CBMOverNX.merge_adm, cbm2, adm=a2)
            afterBA = snap(h, cbm2)
            # unmerge B from A+B
            h.call(CBMOverNX.unmerge_adm, cbm, graph_id=fldv(b, 'graph_id'))
            unmerged = snap(h, cbm)
            # roll the second world... (rollback on the first: merge B again, then roll back to the snapshot taken after A)
            h.call(CBMOverNX.merge_adm, cbm, adm=b)
            remerged = snap(h, cbm)
            h.call(CBMOverNX.rollback, cbm, graph_id=sid)
            rolled = snap(h, cbm)
            # the history goes on after a rollback: merge B once more
            h.call(CBMOverNX.merge_adm, cbm, adm=b)
            after_rollback_merge = snap(h, cbm)
            srcA2, srcB2 = snap(h, a), snap(h, b)
            # third identical world, the short history: merge A, snapshot, merge B, roll back, merge B, snapshot
            h.call(CBMOverNX.merge_adm, cbm3, adm=a3)
            sid3 = h.call(CBMOverNX.snapshot, cbm3)
            h.call(CBMOverNX.merge_adm, cbm3, adm=b3)
            h.call(CBMOverNX.rollback, cbm3, graph_id=sid3)
            h.call(CBMOverNX.merge_adm, cbm3, adm=b3)
            short = snap(h, cbm3)
            h.call(CBMOverNX.snapshot, cbm3)
            short_after_snapshot = snap(h, cbm3)
            srcA3, srcB3 = snap(h, a3), snap(h, b3)
            return dict(short=short, short_after_snapshot=short_after_snapshot, srcA3=srcA3, srcB3=srcB3,srcA0=srcA0, srcB0=srcB0, srcA1=srcA1, srcB1=srcB1, afterA=afterA, afterAB=afterAB, afterBA=afterBA,
                        unmerged=unmerged, rolled=rolled, remerged=remerged, after_rollback_merge=after_rollback_merge,
                        srcA2=srcA2, srcB2=srcB2)
        return run(h, go)

    @staticmethod
    def canon(res):
        return None         # the clauses below are the comparison; internal ids depend on call order

    @staticmethod
    def _union(pre, post):
        """union of elements and connections, shared element once, contributors recorded, delegations keyed by model id"""
        if not returned(post):
            return False
        r = post.result
        nodes, edges = r['afterAB']
        gA, gB = fldv(pre.args[1], 'graph_id'), fldv(pre.args[2], 'graph_id')
        if set(nodes) != {'x', 'a1', 'b1'} or edges != [('a1', 'x'), ('b1', 'x')]:
            return False
        out = [same_members(contributors(nodes['x']), [gA, gB]), same_members(contributors(nodes['a1']), [gA]),
               same_members(contributors(nodes['b1']), [gB])]
        for nid, gid in (('a1', gA), ('b1', gB)):
            for p in (CAP, LAB):
                if p in a_keys(nodes[nid]):
                    ks = list(deleg_map(a_get(nodes[nid], p)))
                    out.append(len(ks) == 1 and eq(ks[0], gid))
        return And(*out)

    ensures = {
        'merge.union_contributors_and_keys': lambda pre, post: MergeContracts._union(pre, post),
        'merge.order_independent': lambda pre, post: returned(post) and views_same(post.result['afterAB'], post.result['afterBA']),
        'merge.sources_untouched': lambda pre, post: returned(post) and And(
            views_same(post.result['srcA0'], post.result['srcA1']), views_same(post.result['srcB0'], post.result['srcB1'])),
        'unmerge.inverse_of_merge': lambda pre, post: returned(post) and views_same(post.result['afterA'], post.result['unmerged']),
        'rollback.restores_snapshot': lambda pre, post: returned(post) and views_same(post.result['afterA'], post.result['rolled']),
        'remerge.after_unmerge_gives_the_union_again': lambda pre, post: returned(post) and views_same(
            post.result['afterAB'], post.result['remerged']),
        'rollback.then_merge_gives_the_union_and_leaves_the_sources': lambda pre, post: returned(post) and And(
            views_same(post.result['afterAB'], post.result['after_rollback_merge']),
            views_same(post.result['srcA0'], post.result['srcA2']), views_same(post.result['srcB0'], post.result['srcB2']),
            views_same(post.result['afterAB'], post.result['short']), views_same(post.result['afterAB'], post.result['short_after_snapshot']),
            views_same(post.result['srcA0'], post.result['srcA3']), views_same(post.result['srcB0'], post.result['srcB3'])),
    }


class TwoSharedElements(MergeContracts):
    """the same history when the two models share TWO elements and only the second model connects them"""
    bounded = 'two delegation models of 3 elements sharing two stitching elements, one of them joined only in the second model'

    def inputs(self, g):
        cbm, a, b = gen_world2(g)
        cbm2, a2, b2 = snapshot((cbm, a, b))
        cbm3, a3, b3 = snapshot((cbm, a, b))
        return [cbm, a, b, cbm2, a2, b2, cbm3, a3, b3], {}

    @staticmethod
    def _union2(pre, post):
        if not returned(post):
            return False
        nodes, edges = post.result['afterAB']
        gA, gB = fldv(pre.args[1], 'graph_id'), fldv(pre.args[2], 'graph_id')
        if set(nodes) != {'x', 'y', 'a1', 'b1'} or edges != [('a1', 'x'), ('a1', 'y'), ('b1', 'x'), ('x', 'y')]:
            return False
        return And(same_members(contributors(nodes['x']), [gA, gB]), same_members(contributors(nodes['y']), [gA, gB]),
                   same_members(contributors(nodes['a1']), [gA]), same_members(contributors(nodes['b1']), [gB]))

    @staticmethod
    def _unmerge_except_known(pre, post):
        """KF-C14-1 companion: what unmerge leaves differs from the state before the merge at most by connections between
        two elements that the remaining model shares with the removed one"""
        if not returned(post):
            return False
        (n0, e0), (n1, e1) = post.result['afterA'], post.result['unmerged']
        shared = {'x', 'y'}
        drop = lambda es: [e for e in es if not (e[0] in shared and e[1] in shared)]
        return views_same((n0, drop(e0)), (n1, drop(e1)))

    ensures = {
        'merge.union_contributors_and_keys': lambda pre, post: TwoSharedElements._union2(pre, post),
        'merge.order_independent': MergeContracts.ensures['merge.order_independent'],
        'merge.sources_untouched': MergeContracts.ensures['merge.sources_untouched'],
        'unmerge.inverse_of_merge': MergeContracts.ensures['unmerge.inverse_of_merge'],
        'unmerge.inverse_of_merge_or_known_defect_KF-C14-1': lambda pre, post: TwoSharedElements._unmerge_except_known(pre, post),
        'rollback.restores_snapshot': MergeContracts.ensures['rollback.restores_snapshot'],
        'remerge.after_unmerge_gives_the_union_again': MergeContracts.ensures['remerge.after_unmerge_gives_the_union_again'],
        'rollback.then_merge_gives_the_union_and_leaves_the_sources':
            MergeContracts.ensures['rollback.then_merge_gives_the_union_and_leaves_the_sources'],
    }


CONTRACTS = [MergeContracts, TwoSharedElements]
