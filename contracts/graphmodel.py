"""
contracts.graphmodel -- bounded symbolic store states for the in-memory back ends and the polymorphic graph vocabulary
(works on the engine's NXGraph model and on real networkx graphs alike, so clauses can be replayed on the real code).

A generated state is a store holding up to K nodes (which of them exist, which graph each belongs to and which edges exist
are enumerated; NodeID, Class, Type and one extra property of every node and the Class of every edge are SYMBOLIC atoms, so
all equalities / collisions between them are covered).  Everything verified over these states is a bounded result:
"all stores with <= K nodes over two graph ids, all attribute values".
"""
import itertools

import z3

from pyvc.values import PObj, PDict, PList, Sym, LockVal, is_sym, mk, ite_value, as_z3_bool
from pyvc.nxmodel import NXGraph, PDefaultDict, ekey
from pyvc.spec import And, Or, Not, Implies, Iff, eq, same, Ite
from fim.graph.networkx_property_graph import NetworkXGraphStorage, NetworkXPropertyGraph, NetworkXGraphImporter
from fim.graph.networkx_property_graph_disjoint import (NetworkXGraphStorageDisjoint, NetworkXPropertyGraphDisjoint,
                                                         NetworkXGraphImporterDisjoint)

SHARED = NetworkXGraphStorage._NetworkXGraphStorage__NetworkXGraphStorage
DISJOINT = NetworkXGraphStorageDisjoint._NetworkXGraphStorageDisjoint__NetworkXGraphStorage
import os as _os
# stores of at most K nodes: 3 in the quick tier, 4 in the thorough tier (pyvc.report sets VERIF_GRAPH_K)
K = int(_os.environ.get('VERIF_GRAPH_K', '3'))
BOUND = f'stores with at most {K} nodes spread over two graph ids; NodeID / Class / Type / property values and edge classes symbolic'


class World:
    """what a contract generated: the store, the graph ids and handles"""


def gen_nodes(g, k=K, gids=None, extra_prop=None, min_nodes=0):
    """-> list of (key, attrs dict) for the present nodes; keys 1..k"""
    nodes = []
    for i in range(1, k + 1):
        if g.choice(2, f'node {i} present?') == 0:
            attrs = {}
            attrs['GraphID'] = g.pick(gids, f'graph of node {i}') if gids else None
            attrs['NodeID'] = g.atom(f'nid{i}')
            attrs['Class'] = g.atom(f'cls{i}')
            attrs['Type'] = g.atom(f'typ{i}')
            if i <= 2:
                attrs['Name'] = g.atom(f'nam{i}')
            if extra_prop is not None and i == 1:
                if g.choice(2, f'node {i} has {extra_prop}?') == 0:
                    attrs[extra_prop] = g.atom(f'xp{i}')
            nodes.append((i, attrs))
    return nodes


def gen_edges(g, keys, same_graph=None):
    edges = []
    for a, b in itertools.combinations(keys, 2):
        if same_graph is not None and not same_graph(a, b):
            continue
        if g.choice(2, f'edge {a}-{b}?') == 0:
            attrs = {'Class': g.atom(f'rel{a}{b}')}
            if not edges and g.choice(2, f'edge {a}-{b} has Name?') == 0:
                attrs['Name'] = g.atom(f'enam{a}{b}')
            edges.append((a, b, attrs))
    return edges


def build_graph(nodes, edges):
    G = NXGraph()
    for n, attrs in nodes:
        G.node.e[n] = [True, PDict({k: v for k, v in attrs.items() if v is not None})]
        G.adj_order[n] = []
    for a, b, attrs in edges:
        G.edge.e[ekey(a, b)] = [True, PDict(dict(attrs))]
        G.adj_order[a].append(b)
        G.adj_order[b].append(a)
    return G


def gen_shared_world(g, k=K, extra_prop=None, cross_edges=False, slack=False):
    """shared store with graphs gA (the addressed one) and gB"""
    w = World()
    w.gA, w.gB = g.atom('gA'), g.atom('gB')
    g.assume(w.gA.t != w.gB.t)
    nodes = gen_nodes(g, k, [w.gA, w.gB], extra_prop)
    gid = {n: a['GraphID'] for n, a in nodes}
    edges = gen_edges(g, [n for n, _ in nodes], None if cross_edges else (lambda a, b: gid[a] is gid[b]))
    w.store_graph = build_graph(nodes, edges)
    w.start_id = k + 1 + (g.choice(2, 'id counter slack') if slack else 0)
    w.store = PObj(SHARED, dict(graphs=w.store_graph, start_id=w.start_id, log=None, lock=LockVal()))
    w.flavour = 'shared'
    w.nodes, w.edges = nodes, edges
    return w


def gen_disjoint_world(g, k=K, extra_prop=None):
    """disjoint store: one graph object per id; node keys 1..n inside each graph"""
    w = World()
    w.gA, w.gB = g.atom('gA'), g.atom('gB')
    g.assume(w.gA.t != w.gB.t)
    graphs = PDefaultDict(None)
    ids = PDefaultDict(None)
    w.per_graph = {}
    for name, gid, kk in (('A', w.gA, k), ('B', w.gB, 1)):
        if g.choice(2, f'graph {name} has an entry?') == 1:
            continue
        nodes = []
        for i in range(1, kk + 1):
            if g.choice(2, f'{name}: node {i} present?') == 0:
                attrs = dict(GraphID=gid, NodeID=g.atom(f'nid{name}{i}'), Class=g.atom(f'cls{name}{i}'),
                             Type=g.atom(f'typ{name}{i}'))
                if i <= 2:
                    attrs['Name'] = g.atom(f'nam{name}{i}')
                if extra_prop is not None and i == 1 and g.choice(2, f'{name}{i} has {extra_prop}?') == 0:
                    attrs[extra_prop] = g.atom(f'xp{name}{i}')
                nodes.append((i, attrs))
        edges = gen_edges(g, [n for n, _ in nodes])
        G = build_graph(nodes, edges)
        graphs.e[gid] = [True, G]
        ids.e[gid] = [True, kk + 1]
        w.per_graph[name] = G
    import networkx as nx
    graphs.factory = nx.Graph
    from fim.graph.networkx_property_graph_disjoint import constant_factory
    ids.factory = constant_factory(1)
    w.store = PObj(DISJOINT, dict(graphs=graphs, graph_node_ids=ids, log=None, lock=LockVal()))
    w.flavour = 'disjoint'
    return w


def handle(w, gid, flavour=None):
    """a property-graph object addressing graph `gid` of the world's store.  (The thin NetworkXGraphStorage wrapper whose
    __getattr__ forwards to the singleton is bypassed: `storage` is the store object itself.)"""
    flavour = flavour or w.flavour
    if flavour == 'shared':
        imp = PObj(NetworkXGraphImporter, dict(storage=w.store, graph_class=NetworkXPropertyGraph, log=None))
        return PObj(NetworkXPropertyGraph, dict(graph_id=gid, importer=imp, log=None, storage=w.store))
    imp = PObj(NetworkXGraphImporterDisjoint, dict(storage=w.store, graph_class=NetworkXPropertyGraphDisjoint, log=None))
    return PObj(NetworkXPropertyGraphDisjoint, dict(graph_id=gid, importer=imp, log=None, storage=w.store))


# =========================================================================================== polymorphic graph vocabulary
def is_model(G):
    return isinstance(G, NXGraph)


def g_nodes(G):
    return list(G.node.e) if is_model(G) else list(G.nodes)


def g_attrs(G, n):
    """attribute dict of node n (PDict or real dict)"""
    return G.node.e[n][1] if is_model(G) else G.nodes[n]


def a_get(d, key, default=None):
    if isinstance(d, PDict):
        return d.e[key][1] if key in d.e else default
    return d.get(key, default)


def a_keys(d):
    return list(d.e) if isinstance(d, PDict) else list(d.keys())


def g_attr(G, n, key, default=None):
    return a_get(g_attrs(G, n), key, default)


def g_edges(G):
    """list of (a, b) with a canonical orientation"""
    if is_model(G):
        return list(G.edge.e)
    return [ekey(a, b) for a, b in G.edges]


def g_eattrs(G, a, b):
    return G.edge.e[ekey(a, b)][1] if is_model(G) else G.edges[(a, b)]


def g_has_edge(G, a, b):
    return ekey(a, b) in G.edge.e if is_model(G) else G.has_edge(a, b)


def g_nbrs(G, n):
    return [m for m in g_nodes(G) if g_has_edge(G, n, m)]


def fldv(o, name):
    """field of an engine object or of a real object"""
    return o.d.e[name][1] if isinstance(o, PObj) else getattr(o, name) if not isinstance(o, dict) else o[name]


def store_graph(store, gid=None):
    """the networkx graph holding graph `gid` (shared store: the one graph)"""
    graphs = fldv(store, 'graphs')
    if isinstance(graphs, (PDict, dict)):
        if isinstance(graphs, PDict):
            for k, (_, G) in graphs.e.items():
                if k is gid or (not is_sym(k) and not is_sym(gid) and k == gid):
                    return G
            return None
        return graphs.get(gid) if gid in graphs else None
    return graphs


def nodes_of(store, gid):
    """[(key, attrs)] of the nodes that belong to graph gid, with the membership condition: [(cond, key, attrs)]"""
    G = store_graph(store, gid)
    if G is None:
        return []
    out = []
    for n in g_nodes(G):
        out.append((eq(g_attr(G, n, 'GraphID'), gid), n, g_attrs(G, n)))
    return out


def dict_same(a, b):
    """two attribute dicts have the same keys and identical values"""
    ka, kb = a_keys(a), a_keys(b)
    if set(map(repr, ka)) != set(map(repr, kb)):
        return False
    return And(*[same_val(a_get(a, k), a_get(b, k)) for k in ka])


def same_val(x, y):
    if isinstance(x, (PDict, dict)) and isinstance(y, (PDict, dict)):
        return dict_same(x, y)
    if isinstance(x, (PList, list, tuple)) and isinstance(y, (PList, list, tuple)):
        xs = x.items if isinstance(x, PList) else list(x)
        ys = y.items if isinstance(y, PList) else list(y)
        return len(xs) == len(ys) and And(*[same_val(p, q) for p, q in zip(xs, ys)])
    return same(x, y)


def graph_same(G0, G1, keep=lambda n: True):
    """restricted to the nodes selected by keep: same nodes, same attribute maps, same edges between them, same edge maps"""
    n0 = [n for n in g_nodes(G0) if keep(n)]
    n1 = [n for n in g_nodes(G1) if keep(n)]
    if set(n0) != set(n1):
        return False
    out = [dict_same(g_attrs(G0, n), g_attrs(G1, n)) for n in n0]
    e0 = {e for e in g_edges(G0) if keep(e[0]) and keep(e[1])}
    e1 = {e for e in g_edges(G1) if keep(e[0]) and keep(e[1])}
    if e0 != e1:
        return False
    out += [dict_same(g_eattrs(G0, a, b), g_eattrs(G1, a, b)) for a, b in e0]
    return And(*out)


def count(items, pred):
    n = 0
    for x in items:
        n = n + Ite(pred(x), 1, 0)
    return n


def bag_eq(result, expected):
    """multiset equality of a concrete-length list `result` with a guarded bag `expected` = [(cond, value)]"""
    vals = list(result) + [v for _, v in expected]
    out = []
    seen = []
    for v in vals:
        if any(v is s for s in seen):
            continue
        seen.append(v)
        left = count(result, lambda x: eq(x, v))
        right = count(expected, lambda cv: And(cv[0], eq(cv[1], v)))
        out.append(eq(left, right))
    return And(*out)


def as_list(x):
    from pyvc.values import PSet
    if isinstance(x, (PList, PSet)):
        return list(x.items)
    return list(x)
