"""
C19 -- Persistent-backend statements are well-formed and data-independent.

Every statement-issuing operation of the Neo4j back end is executed on its REAL source around a recording stand-in for the
driver (no server).  Arguments are classified by the contract as IDENTIFIERS (classes / labels, relation names, property
names) or VALUES (graph ids, node ids, property values, names used as values, dictionary values).  Per operation, for every
statement handed to the driver on every path:
  stmt.data_independent   the statement text (a symbolic string term built by the real f-strings / concatenations) mentions no
                          VALUE symbol -- i.e. for all values v1, v2 the text is the same (2-safety, decided on the term);
  stmt.params_supplied    every $name in the text is a key of the parameters passed;
  stmt.well_formed        with sample identifiers substituted: parentheses / brackets / braces / quotes balance, no template
                          residue ({{ }} {name}), every variable used in SET/REMOVE/RETURN/WHERE/WITH/DELETE is bound.
"""
import re
import z3

from pyvc.harness import Contract
import pyvc.nxmodel      # noqa  (registers the collections.defaultdict model)
from pyvc.spec import And, Or, Not, returned
from pyvc.values import PObj, PDict, PList, PSet, AnyVal, Foreign, Sym, BuiltinMethod, is_sym, decode_z3_string, Unsupported
from fim.graph.neo4j_property_graph import Neo4jPropertyGraph, Neo4jGraphImporter

TN = 'fim.graph.neo4j_property_graph:Neo4jPropertyGraph.'


class SessionStub:
    """stand-in for the neo4j driver / session: records every statement handed to run(); results are unknown values"""

    def __init__(self, log):
        self.log = log

    def pyvc_getattr(self, I, name):
        if name in ('session', 'run', '__enter__', '__exit__', 'close', 'begin_transaction', 'read_transaction',
                    'write_transaction', 'commit'):
            return BuiltinMethod(self, name)
        raise Unsupported(f'driver stub: {name}')

    def pyvc_method(self, I, name, args, kw):
        if name in ('session', '__enter__', 'begin_transaction'):
            return self
        if name in ('__exit__', 'close', 'commit'):
            return None
        if name == 'run':
            self.log.append((args[0], dict(kw), args[1:]))
            I.ctx.ghost.setdefault('statements', []).append((args[0], dict(kw)))
            # the server may refuse any statement: the failure paths (handlers that issue clean-up statements) are explored too
            if I.ctx.ghost.get('driver_failures', 0) < 1 and I.ctx.choose([z3.BoolVal(True)] * 2, 'the driver call fails?') == 1:
                I.ctx.ghost['driver_failures'] = I.ctx.ghost.get('driver_failures', 0) + 1
                I.raise_(RuntimeError, 'driver failure')
            return AnyVal('result')
        raise Unsupported(f'driver stub method {name}')


def term_of(q):
    return q.t if is_sym(q) else z3.StringVal(q)


def symbols(t):
    out, seen, stack = set(), set(), [t]
    while stack:
        x = stack.pop()
        if x.get_id() in seen:
            continue
        seen.add(x.get_id())
        if z3.is_const(x) and x.decl().kind() == z3.Z3_OP_UNINTERPRETED:
            out.add(x.decl().name())
        stack.extend(x.children())
    return out


def instantiate(q, assignment):
    """concrete text of the statement for a given assignment of its symbols"""
    if not is_sym(q):
        return q
    subs = [(z3.String(n), z3.StringVal(v)) for n, v in assignment.items()]
    t = z3.simplify(z3.substitute(q.t, *subs))
    if not z3.is_string_value(t):
        raise Unsupported(f'statement text not concrete after substitution: {t}')
    return decode_z3_string(t)


def check_wellformed(text):
    """light Cypher skeleton check on a concrete text; returns a list of complaints"""
    bad = []
    stack = []
    pairs = {')': '(', ']': '[', '}': '{'}
    i, n = 0, len(text)
    quote = None
    while i < n:
        c = text[i]
        if quote:
            if c == '\\':
                i += 2
                continue
            if c == quote:
                quote = None
        elif c in '\'"':
            quote = c
        elif c in '([{':
            stack.append(c)
        elif c in ')]}':
            if not stack or stack[-1] != pairs[c]:
                bad.append(f'unbalanced {c!r} at {i}')
                break
            stack.pop()
        i += 1
    if quote:
        bad.append(f'unterminated {quote} quote')
    if stack and not bad:
        bad.append(f'unclosed {stack[-1]!r}')
    if '{{' in text or '}}' in text:
        bad.append('template residue {{ or }}')
    m = re.search(r'\{([A-Za-z_][A-Za-z0-9_]*)\}', text)
    if m:
        bad.append(f'unexpanded template field {{{m.group(1)}}}')
    # variables: introduced in patterns (x:Label / (x) / [x:REL] / (x {..})), AS x, YIELD x, UNWIND .. AS x, with head(..) as x
    nostr = re.sub(r"'[^']*'|\"[^\"]*\"", "''", text)
    # a map / list / argument list with a dangling separator:  {a: 1, }   [x, ]   (x, )   { , a: 1}   a: 1, , b: 2
    m = re.search(r',\s*[\}\]\)]|[\{\[\(]\s*,|,\s*,', nostr)
    if m:
        bad.append(f'dangling separator {m.group(0)!r}')
    bound = set(re.findall(r'[\(\[]\s*([A-Za-z_][A-Za-z0-9_]*)\s*(?=[:\)\]\{ ])', nostr))
    bound |= set(re.findall(r'(?i)\bas\s+([A-Za-z_][A-Za-z0-9_]*)', nostr))
    for y in re.findall(r'(?i)\byield\s+([A-Za-z0-9_,\s]+?)(?=\breturn\b|\bwith\b|\bwhere\b|$)', nostr):
        bound |= set(x.strip() for x in y.split(',') if x.strip())
    used = set()
    for kw_, body in re.findall(r'(?i)\b(set|remove|return|where|delete|with)\b(.*?)(?=\b(?:match|set|remove|return|where|delete|with|call|yield|optional|unwind|create|merge|union)\b|;|$)', nostr):
        for v in re.findall(r'(?<![\$\w\.:])([A-Za-z_][A-Za-z0-9_]*)\s*(?=\.|\+=|\)|,|$|\s)', body):
            used.add((kw_.lower(), v))
    KEYWORDS = {'as', 'and', 'or', 'not', 'in', 'null', 'true', 'false', 'distinct', 'collect', 'labels', 'properties', 'nodes',
                'head', 'detach', 'delete', 'count', 'type', 'id', 'exists', 'is', 'order', 'by', 'limit', 'desc', 'asc', 'union', 'all', 'n', ''}
    for kw_, v in used:
        if v.lower() in KEYWORDS - {'n'} or v in bound:
            continue
        if re.search(r'\b' + re.escape(v) + r'(?:\.[A-Za-z_][A-Za-z0-9_]*)+\s*\(', nostr):
            continue            # head of a dotted procedure / function name (apoc.coll.toSet(...))
        if re.fullmatch(r'[A-Za-z_][A-Za-z0-9_]*', v) and not re.search(r'\b' + re.escape(v) + r'\s*\(', nostr):
            bad.append(f'variable {v!r} used in {kw_.upper()} but never bound')
    return sorted(set(bad))


IDENT_SAMPLE = 'Ident'


def make_op(name, method, gen_kwargs, cls=Neo4jPropertyGraph, target_prefix=TN):
    class Op(Contract):
        target = target_prefix + method
        props = ('C19',)
        havoc_unmodelled = True
        no_crosscheck = True
        _method = method

        def inputs(self, g):
            log = []
            pg = PObj(cls, dict(graph_id=g.str('val_graph_id'), driver=SessionStub(log), log=Foreign(None), importer=None))
            kw = gen_kwargs(g, pg)
            return [pg], kw

        def body(self, h, pg, **kw):
            return h.call(getattr(cls, method), pg, **kw)

        @staticmethod
        def _stmts(post):
            return getattr(post, 'ghost', {}).get('statements', [])

        @staticmethod
        def _independent(pre, post):
            for q, params in Op._stmts(post):
                vals = sorted(s for s in symbols(term_of(q)) if s.startswith('val_') or s.split('!')[0] in ('text', 'strof', 'fmt'))
                if vals:
                    return False
            return True

        @staticmethod
        def _params(pre, post):
            for q, params in Op._stmts(post):
                text = instantiate(q, {s: IDENT_SAMPLE for s in symbols(term_of(q))})
                for nm in set(re.findall(r'\$([A-Za-z_][A-Za-z0-9_]*)', text)):
                    if nm not in params:
                        return False
            return True

        @staticmethod
        def _wellformed(pre, post):
            for q, params in Op._stmts(post):
                text = instantiate(q, {s: IDENT_SAMPLE for s in symbols(term_of(q))})
                if check_wellformed(text):
                    return False
            return True

        @staticmethod
        def _independent_except_known(pre, post):
            allowed = KNOWN_SPLICED.get(method, set())
            for q, params in Op._stmts(post):
                vals = {s for s in symbols(term_of(q)) if s.startswith('val_') or s.split('!')[0] in ('text', 'strof', 'fmt')}
                if not vals <= allowed:
                    return False
            return True

        ensures = {'stmt.data_independent': lambda pre, post: Op._independent(pre, post),
                   'stmt.data_independent_except_known': lambda pre, post: Op._independent_except_known(pre, post),
                   'stmt.params_supplied': lambda pre, post: Op._params(pre, post),
                   'stmt.well_formed': lambda pre, post: Op._wellformed(pre, post),
                   'stmt.issued': lambda pre, post: (not returned(post)) or len(Op._stmts(post)) > 0 or method in NO_STMT}

        @classmethod
        def replay_custom(cls_, ctx, cname, model):
            return replay_native(cls, method, cname, ctx)
    Op.__name__ = name
    return Op


NO_STMT = set()

# KNOWN FINDINGS (KNOWN_FINDINGS.jsonl, KF-C19-*): operations that splice these VALUES into the statement text as unescaped
# quoted literals.  The companion obligation `stmt.data_independent_except_known` fails as soon as any OTHER value reaches the text.
KNOWN_SPLICED = {
    'update_node_properties': {'val_v1', 'val_v2'},
    'update_link_properties': {'val_v1'},
    'serialize_graph': {'val_graph_id'},
    'graph_exists': {'val_graph_id'},
    'add_node': {'val_graph_id', 'val_node_id', 'val_v1'},
    'add_link': {'val_v1'},
    'merge_nodes': {'val_policy', 'val_other_graph_id'},          # + other_graph.graph_exists() (KF-C19-4)
    'find_matching_nodes': {'val_other_graph_id'},                  # through other_graph.graph_exists() (KF-C19-4)
    'get_matching_nodes_with_components': {'val_v1', 'val_model'},  # KF-C19-8
}


class _RecDriver:
    """native recording driver for replays"""

    def __init__(self, fail_at=None):
        self.calls = []
        self.fail_at = fail_at

    def close(self):
        return None

    def session(self, *a, **k):
        return self

    def __enter__(self):
        return self

    def __exit__(self, *a):
        return False

    def run(self, q, *a, **kw):
        self.calls.append((q, kw))
        if self.fail_at is not None and len(self.calls) - 1 == self.fail_at:
            raise RuntimeError('driver failure (injected)')
        return _RecResult()


class _RecResult:
    def single(self):
        return None

    def peek(self):
        return None

    def value(self, *a):
        return []

    def values(self, *a):
        return []

    def data(self):
        return {}

    def __iter__(self):
        return iter(())


def native_statements(cls, method, values, fail_at=None):
    """call the REAL method around a recording driver with the given value strings (optionally making the fail_at-th statement
    fail, so that handlers run); -> list of (text, params)"""
    import logging
    drv = _RecDriver(fail_at)
    pg = cls.__new__(cls)
    pg.__dict__.update(graph_id=values['graph_id'], driver=drv, log=logging.getLogger('replay'), importer=None)
    kw = NATIVE_ARGS[(cls.__name__, method)](values)
    try:
        getattr(pg, method)(**kw)
    except Exception:   # noqa  (results are empty: the call may fail after issuing its statement)
        pass
    return drv.calls


NATIVE_ARGS = {}


def replay_native(cls, method, cname, ctx):
    v1 = {k: 'plain' for k in ('graph_id', 'node_id', 'node_a', 'node_b', 'node_z', 'val', 'name')}
    v2 = {k: "it's \\ } $x\n" for k in v1}
    try:
        s1 = native_statements(cls, method, v1)
        s2 = native_statements(cls, method, v2)
    except Exception as e:   # noqa
        return False, dict(note=f'native replay failed: {e!r}')
    t1, t2 = [q for q, _ in s1], [q for q, _ in s2]
    if cname == 'stmt.data_independent':
        differs = t1 != t2
        return differs, dict(operation=method, values_1=v1['val'], values_2=v2['val'], statements_1=t1[:3], statements_2=t2[:3],
                             note='the statement text changes with the stored values (a value containing a quote ends the literal)')
    complaints = []
    for k in range(3):
        # the failure paths: the k-th statement is refused by the server
        try:
            s1 = s1 + [c for c in native_statements(cls, method, v1, fail_at=k) if c not in s1]
        except Exception:   # noqa
            pass
    t1 = [q for q, _ in s1]
    for q, params in s1:
        complaints += check_wellformed(q)
        complaints += [f'parameter ${nm} not supplied' for nm in set(re.findall(r'\$([A-Za-z_][A-Za-z0-9_]*)', q)) if nm not in params]
    return bool(complaints), dict(operation=method, statements=t1[:3], complaints=complaints)


def ident(g, name):
    return g.str(f'ident_{name}')


def val(g, name):
    return g.str(f'val_{name}')


OPS = []


def reg(name, method, gen, native, cls=Neo4jPropertyGraph, prefix=TN):
    NATIVE_ARGS[(cls.__name__, method)] = native
    OPS.append(make_op(name, method, gen, cls=cls, target_prefix=prefix))


reg('DeleteGraph', 'delete_graph', lambda g, pg: {}, lambda v: {})
reg('NodesByClass', 'get_all_nodes_by_class', lambda g, pg: dict(label=ident(g, 'label')), lambda v: dict(label='Lbl'))
reg('NodesByClassAndType', 'get_all_nodes_by_class_and_type', lambda g, pg: dict(label=ident(g, 'label'), ntype=val(g, 'ntype')),
    lambda v: dict(label='Lbl', ntype=v['val']))
reg('ListAllNodeIds', 'list_all_node_ids', lambda g, pg: {}, lambda v: {})
reg('GetNodeProperties', 'get_node_properties', lambda g, pg: dict(node_id=val(g, 'node_id')), lambda v: dict(node_id=v['node_id']))
reg('GetLinkProperties', 'get_link_properties', lambda g, pg: dict(node_a=val(g, 'a'), node_b=val(g, 'b')),
    lambda v: dict(node_a=v['node_a'], node_b=v['node_b']))
reg('UpdateNodeProperty', 'update_node_property', lambda g, pg: dict(node_id=val(g, 'node_id'), prop_name=ident(g, 'prop'), prop_val=val(g, 'pv')),
    lambda v: dict(node_id=v['node_id'], prop_name='Prop', prop_val=v['val']))
reg('UnsetNodeProperty', 'unset_node_property', lambda g, pg: dict(node_id=val(g, 'node_id'), prop_name=ident(g, 'prop')),
    lambda v: dict(node_id=v['node_id'], prop_name='Prop'))
reg('UpdateNodesProperty', 'update_nodes_property', lambda g, pg: dict(prop_name=ident(g, 'prop'), prop_val=val(g, 'pv')),
    lambda v: dict(prop_name='Prop', prop_val=v['val']))
reg('UpdateNodeProperties', 'update_node_properties',
    lambda g, pg: dict(node_id=val(g, 'node_id'), props=PDict({ident(g, 'p1'): val(g, 'v1'), ident(g, 'p2'): val(g, 'v2')})),
    lambda v: dict(node_id=v['node_id'], props={'P1': v['val'], 'P2': v['val']}))
reg('UpdateLinkProperty', 'update_link_property',
    lambda g, pg: dict(node_a=val(g, 'a'), node_b=val(g, 'b'), kind=ident(g, 'kind'), prop_name=ident(g, 'prop'), prop_val=val(g, 'pv')),
    lambda v: dict(node_a=v['node_a'], node_b=v['node_b'], kind='rel', prop_name='Prop', prop_val=v['val']))
reg('UnsetLinkProperty', 'unset_link_property',
    lambda g, pg: dict(node_a=val(g, 'a'), node_b=val(g, 'b'), kind=ident(g, 'kind'), prop_name=ident(g, 'prop')),
    lambda v: dict(node_a=v['node_a'], node_b=v['node_b'], kind='rel', prop_name='Prop'))
reg('UpdateLinkProperties', 'update_link_properties',
    lambda g, pg: dict(node_a=val(g, 'a'), node_b=val(g, 'b'), kind=ident(g, 'kind'), props=PDict({ident(g, 'p1'): val(g, 'v1')})),
    lambda v: dict(node_a=v['node_a'], node_b=v['node_b'], kind='rel', props={'P1': v['val']}))
reg('SerializeGraph', 'serialize_graph', lambda g, pg: {}, lambda v: {})
reg('GraphExists', 'graph_exists', lambda g, pg: {}, lambda v: {})
reg('ShortestPath', 'get_nodes_on_shortest_path',
    lambda g, pg: dict(node_a=val(g, 'a'), node_z=val(g, 'z'), rel=g.pick([None, ident(g, 'rel')], 'relation given?')),
    lambda v: dict(node_a=v['node_a'], node_z=v['node_z'], rel='rel'))
reg('PathWithHops', 'get_nodes_on_path_with_hops',
    lambda g, pg: dict(node_a=val(g, 'a'), node_z=val(g, 'z'), hops=PList([val(g, 'hop')])),
    lambda v: dict(node_a=v['node_a'], node_z=v['node_z'], hops=[v['val']]))
reg('FirstNeighbor', 'get_first_neighbor', lambda g, pg: dict(node_id=val(g, 'node_id'), rel=ident(g, 'rel'), node_label=ident(g, 'label')),
    lambda v: dict(node_id=v['node_id'], rel='rel', node_label='Lbl'))
reg('SecondNeighbor', 'get_first_and_second_neighbor',
    lambda g, pg: dict(node_id=val(g, 'node_id'), rel1=ident(g, 'rel1'), node1_label=ident(g, 'l1'), rel2=ident(g, 'rel2'),
                       node2_label=ident(g, 'l2')),
    lambda v: dict(node_id=v['node_id'], rel1='r1', node1_label='L1', rel2='r2', node2_label='L2'))
reg('DeleteNode', 'delete_node', lambda g, pg: dict(node_id=val(g, 'node_id')), lambda v: dict(node_id=v['node_id']))
reg('NodeExists', 'node_exists', lambda g, pg: dict(node_id=val(g, 'node_id'), label=ident(g, 'label')),
    lambda v: dict(node_id=v['node_id'], label='Lbl'))
reg('AddNode', 'add_node', lambda g, pg: dict(node_id=val(g, 'node_id'), label=ident(g, 'label'),
                                              props=g.pick([None, PDict({ident(g, 'p1'): val(g, 'v1')})], 'props')),
    lambda v: dict(node_id=v['node_id'], label='Lbl', props={'P1': v['val']}))
reg('AddLink', 'add_link', lambda g, pg: dict(node_a=val(g, 'a'), rel=ident(g, 'rel'), node_b=val(g, 'b'),
                                              props=g.pick([None, PDict({ident(g, 'p1'): val(g, 'v1')})], 'props')),
    lambda v: dict(node_a=v['node_a'], rel='rel', node_b=v['node_b'], props={'P1': v['val']}))
reg('GetStitchNodes', 'get_stitch_nodes', lambda g, pg: {}, lambda v: {})
reg('CheckNodeUnique', 'check_node_unique', lambda g, pg: dict(label=ident(g, 'label'), name=val(g, 'name')),
    lambda v: dict(label='Lbl', name=v['name']))

def _other(g, pg):
    return PObj(Neo4jPropertyGraph, dict(graph_id=g.str('val_other_graph_id'), driver=pg.d.e['driver'][1], log=Foreign(None), importer=None))


def _native_other(v):
    import logging
    o = Neo4jPropertyGraph.__new__(Neo4jPropertyGraph)
    o.__dict__.update(graph_id=v['graph_id'] + '2', driver=_RecDriver(), log=logging.getLogger('replay'), importer=None)
    o.graph_exists = lambda: True
    return o


reg('FindMatchingNodes', 'find_matching_nodes', lambda g, pg: dict(other_graph=_other(g, pg)), lambda v: dict(other_graph=_native_other(v)))
reg('MergeNodes', 'merge_nodes',
    lambda g, pg: dict(node_id=val(g, 'node_id'), other_graph=_other(g, pg),
                       merge_properties=g.pick([None, PDict({ident(g, 'p1'): val(g, 'policy')})], 'merge properties')),
    lambda v: dict(node_id=v['node_id'], other_graph=_native_other(v), merge_properties={'P1': v['val']}))
reg('GraphDiff', 'get_graph_diff', lambda g, pg: dict(other_graph=_other(g, pg), label=ident(g, 'label')),
    lambda v: dict(other_graph=_native_other(v), label='Lbl'))
reg('GraphPropertyDiff', 'get_graph_property_diff', lambda g, pg: dict(other_graph=_other(g, pg), label=ident(g, 'label')),
    lambda v: dict(other_graph=_native_other(v), label='Lbl'))

# ---- import bookkeeping (Neo4jGraphImporter) and combined-model queries (Neo4jCBMGraph)
from fim.graph.resources.neo4j_cbm import Neo4jCBMGraph
from fim.slivers.attached_components import AttachedComponentsInfo, ComponentSliver, ComponentType
TI = 'fim.graph.neo4j_property_graph:Neo4jGraphImporter.'
TC = 'fim.graph.resources.neo4j_cbm:Neo4jCBMGraph.'

reg('ImportGraph', '_import_graph', lambda g, pg: dict(graphml_file=val(g, 'file'), graph_id=val(g, 'gid')),
    lambda v: dict(graphml_file=v['val'], graph_id=v['graph_id']), cls=Neo4jGraphImporter, prefix=TI)
reg('ImporterDeleteGraph', 'delete_graph', lambda g, pg: dict(graph_id=val(g, 'gid')), lambda v: dict(graph_id=v['graph_id']),
    cls=Neo4jGraphImporter, prefix=TI)
reg('ImporterDeleteAllGraphs', 'delete_all_graphs', lambda g, pg: {}, lambda v: {}, cls=Neo4jGraphImporter, prefix=TI)


def _comps(g):
    c = PObj(ComponentSliver, dict(resource_type=ComponentType.GPU, resource_model=val(g, 'model'), resource_name='c'))
    return PObj(AttachedComponentsInfo, dict(devices=PDict({'c': c}), by_type=PDict()))


def _native_comps(v):
    from fim.slivers.attached_components import ComponentSliver as CS, AttachedComponentsInfo as ACI
    c = CS()
    c.resource_type, c.resource_model, c.resource_name = ComponentType.GPU, v['val'], 'c'
    a = ACI()
    a.devices['c'] = c
    return a


reg('MatchingNodesWithComponents', 'get_matching_nodes_with_components',
    lambda g, pg: dict(label=ident(g, 'label'), props=PDict({ident(g, 'p1'): val(g, 'v1')} if g.choice(2, 'a property given?') == 0 else {}),
                       comps=g.pick([None, 'one'], 'components given?') and _comps(g)),
    lambda v: dict(label='Lbl', props={'P1': v['val']}, comps=_native_comps(v)), cls=Neo4jCBMGraph, prefix=TC)
for _nm, _m in (('IntersiteLinks', 'get_intersite_links'), ('Sites', 'get_sites'), ('DisconnectedSites', 'get_disconnected_sites'),
                ('ConnectedSites', 'get_connected_sites'), ('FacilityPorts', 'get_facility_ports')):
    reg('Cbm' + _nm, _m, lambda g, pg: {}, lambda v: {}, cls=Neo4jCBMGraph, prefix=TC)

CONTRACTS = OPS
for _c in CONTRACTS:
    globals()[_c.__name__] = _c
