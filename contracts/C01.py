"""
C01 -- Model serialization round trip is lossless and re-importable.

Two layers, both BOUNDED (nothing here is counted as proved):

(1) glue contracts -- the REAL serialize_graph / import_graph_from_string[_direct] / import_graph_from_file[_direct] /
    _read_from_file (format sniffing) / get_graph_id / storage.extract_graph / add_graph / add_graph_direct source is executed
    symbolically over the bounded store model (<= 3 nodes of the serialized graph + a bystander graph, symbolic NodeID / Class /
    Type / Name / property values and edge classes) with the text codecs as an ASSUMED inverse pair (pyvc/iomodel.py).  Stated
    over canonical content (matching by NodeID): same node ids, classes, property values, edges and edge classes; GraphID kept or
    reassigned as asked; a second serialize + import gives the same content again; every other graph of the store is untouched.
(2) native contracts on the real libraries (networkx GraphML / node-link, lxml, json, real temporary files): the same
    postconditions evaluated on generated raw property graphs with hostile string values (quotes, markup, non-ASCII, leading /
    trailing blanks, empty strings, digit-only strings, ints) and on models built through the topology API, for both formats,
    both in-memory back ends and all four import entry points, plus the label markup of every node / edge of the GraphML text
    and the library's own validation after import.  Bound: the generated inputs of one run (count in the evidence).
"""
import itertools
import json
import os
import random
import shutil
import tempfile
import time

from pyvc import iomodel, loader
from pyvc.harness import Contract
from pyvc.spec import And, Or, Not, Implies, Iff, eq, same, returned, raised
from pyvc.values import PObj, PDict, PList, is_sym
from contracts import graphmodel as gm
from contracts.graphmodel import (gen_shared_world, gen_disjoint_world, handle, g_nodes, g_attr, g_attrs, g_edges, g_eattrs,
                                  g_has_edge, a_get, a_keys, fldv, same_val)
from contracts.pgops import graphs_of, others_same
from fim.graph.abc_property_graph import ABCPropertyGraph, GraphFormat, PropertyGraphImportException, ABCGraphImporter
from fim.graph.networkx_property_graph import NetworkXPropertyGraph, NetworkXGraphImporter
from fim.graph.networkx_property_graph_disjoint import NetworkXPropertyGraphDisjoint, NetworkXGraphImporterDisjoint
from fim.graph.graph_util import GraphML

LEVEL = 'other'
TP = 'fim.graph.networkx_property_graph:'
SUMMARIES = {'fim.graph.graph_util:GraphML.networkx_to_neo4j': iomodel.neo4j_markup_summary}
ENTRIES = ['string_keep', 'string_new', 'string_replace_other', 'string_fresh_uuid', 'string_direct', 'file_keep', 'file_new',
           'file_direct']


# ------------------------------------------------------------------------------------------- canonical content
def member(G, n, gid):
    v = g_attr(G, n, 'GraphID')
    if v is gid:
        return True
    if is_sym(v) or is_sym(gid):
        return False            # distinct atoms: the generators assume them different
    return v == gid


def members(G, gid):
    return [] if G is None else [n for n in g_nodes(G) if member(G, n, gid)]


def attrs_same_but_graphid(a, b):
    ka = [k for k in a_keys(a) if k != 'GraphID']
    kb = [k for k in a_keys(b) if k != 'GraphID']
    if set(map(repr, ka)) != set(map(repr, kb)):
        return False
    return And(*[same_val(a_get(a, k), a_get(b, k)) for k in ka])


def content_same(G0, gid0, G1, gid1, stamped):
    """graph gid0 of G0 and graph gid1 of G1 have the same content, matching nodes by NodeID: same number of nodes; every
    node has a counterpart with the same NodeID and the same property map (GraphID aside, which must be `stamped`);
    counterparts are joined by an edge exactly when the originals are, with the same edge map"""
    src, dst = members(G0, gid0), members(G1, gid1)
    if len(src) != len(dst):
        return False
    out = []
    for n in src:
        out.append(Or(*[And(eq(g_attr(G0, n, 'NodeID'), g_attr(G1, m, 'NodeID')),
                            attrs_same_but_graphid(g_attrs(G0, n), g_attrs(G1, m))) for m in dst]))
    for m in dst:
        out.append(same(g_attr(G1, m, 'GraphID'), stamped))
    for n1, n2 in itertools.combinations(src, 2):
        for m1, m2 in itertools.permutations(dst, 2):
            corr = And(eq(g_attr(G0, n1, 'NodeID'), g_attr(G1, m1, 'NodeID')), eq(g_attr(G0, n2, 'NodeID'), g_attr(G1, m2, 'NodeID')))
            e0, e1 = g_has_edge(G0, n1, n2), g_has_edge(G1, m1, m2)
            if e0 != e1:
                out.append(Not(corr))
            elif e0:
                out.append(Implies(corr, gm.dict_same(g_eattrs(G0, n1, n2), g_eattrs(G1, m1, m2))))
    return And(*out)


def graph_of(store, gid):
    """the nx graph (model or real) that holds graph gid in this store, or None"""
    graphs = fldv(store, 'graphs')
    if isinstance(graphs, PDict):
        for k, (_, G) in graphs.e.items():
            if k is gid or (not is_sym(k) and not is_sym(gid) and k == gid):
                return G
        return None
    if isinstance(graphs, dict):
        return graphs.get(gid) if gid in graphs else None
    return graphs


def bystanders_untouched(S0, S1, touched):
    """every node that belongs to a graph id outside `touched` is still there with the same property map, and so are the
    edges among such nodes"""
    graphs0, graphs1 = fldv(S0, 'graphs'), fldv(S1, 'graphs')
    if isinstance(graphs0, (PDict, dict)):
        it0 = [(k, v[1]) for k, v in graphs0.e.items()] if isinstance(graphs0, PDict) else list(graphs0.items())
        out = []
        for k, G in it0:
            if any(k is t or (not is_sym(k) and not is_sym(t) and k == t) for t in touched):
                continue
            G1 = graph_of(S1, k)
            out.append(len(g_nodes(G)) == 0 if G1 is None else gm.graph_same(G, G1))
        return And(*out)
    G0, G1 = graphs0, graphs1
    keep = [n for n in g_nodes(G0) if not any(member(G0, n, t) for t in touched)]
    if any(n not in set(g_nodes(G1)) for n in keep):
        return False
    out = [gm.dict_same(g_attrs(G0, n), g_attrs(G1, n)) for n in keep]
    for (a, b) in g_edges(G0):
        if a in keep and b in keep:
            out.append(g_has_edge(G1, a, b) and gm.dict_same(g_eattrs(G0, a, b), g_eattrs(G1, a, b)))
    # and nothing that is not of a touched graph appeared
    for n in g_nodes(G1):
        if n not in set(g_nodes(G0)):
            out.append(any(member(G1, n, t) for t in touched))
    return And(*out)


# ------------------------------------------------------------------------------------------- (1) glue contracts
class _Paths:
    """file names for the file-based entry points: ghost names in symbolic mode, a real scratch directory natively"""
    def __init__(self, h):
        self.h = h
        self.dir = None if h.mode == 'sym' else tempfile.mkdtemp(prefix='c01-')

    def path(self, name):
        return f'/ghost/{name}' if self.dir is None else os.path.join(self.dir, name)

    def write(self, path, text):
        if self.dir is None:
            iomodel.fs(self.h.I)[path] = text
        else:
            with open(path, 'w', encoding='utf-8') as f:
                f.write(text)

    def done(self):
        if self.dir is not None:
            shutil.rmtree(self.dir, ignore_errors=True)


class _W:
    def __init__(self, gA, gB, gN, gC):
        self.gA, self.gB, self.gN, self.gC = gA, gB, gN, gC


def do_import(h, imp, entry, text, paths, w, tag=''):
    """-> (property-graph handle returned, graph id the copy must carry)"""
    if entry == 'string_keep':
        return h.call(h.getattr(imp, 'import_graph_from_string'), graph_string=text, graph_id=w.gA), w.gA
    if entry == 'string_new':
        return h.call(h.getattr(imp, 'import_graph_from_string'), graph_string=text, graph_id=w.gN), w.gN
    if entry == 'string_replace_other':
        return h.call(h.getattr(imp, 'import_graph_from_string'), graph_string=text, graph_id=w.gB), w.gB
    if entry == 'string_fresh_uuid':
        r = h.call(h.getattr(imp, 'import_graph_from_string'), graph_string=text)
        return r, h.getattr(r, 'graph_id')
    if entry == 'string_direct':
        return h.call(h.getattr(imp, 'import_graph_from_string_direct'), graph_string=text), w.gA
    p = paths.path(f'in{tag}.graph')
    paths.write(p, text)
    if entry == 'file_keep':
        return h.call(h.getattr(imp, 'import_graph_from_file'), graph_file=p, graph_id=w.gA), w.gA
    if entry == 'file_new':
        return h.call(h.getattr(imp, 'import_graph_from_file'), graph_file=p, graph_id=w.gN), w.gN
    if entry == 'file_direct':
        return h.call(h.getattr(imp, 'import_graph_from_file_direct'), graph_file=p), w.gA
    raise KeyError(entry)


def make_roundtrip(flavour, fmt):
    cls = NetworkXPropertyGraph if flavour == 'shared' else NetworkXPropertyGraphDisjoint
    mod = 'fim.graph.networkx_property_graph' + ('' if flavour == 'shared' else '_disjoint')
    storecls = ('NetworkXGraphStorage._NetworkXGraphStorage__NetworkXGraphStorage' if flavour == 'shared' else
                'NetworkXGraphStorageDisjoint._NetworkXGraphStorageDisjoint__NetworkXGraphStorage')

    class RoundTrip(Contract):
        target = TP + 'NetworkXPropertyGraph.serialize_graph' if flavour == 'shared' else \
            mod + ':NetworkXPropertyGraphDisjoint.serialize_graph'
        extra_targets = (TP + 'NetworkXGraphImporter.import_graph_from_string', TP + 'NetworkXGraphImporter.import_graph_from_string_direct',
                         TP + 'NetworkXGraphImporter.import_graph_from_file_direct', TP + 'NetworkXGraphImporter._read_from_file',
                         TP + 'NetworkXGraphImporter._read_from_file_graphml', TP + 'NetworkXGraphImporter._read_from_file_json_nodelink',
                         'fim.graph.abc_property_graph:ABCGraphImporter.import_graph_from_file',
                         'fim.graph.abc_property_graph:ABCGraphImporter.get_graph_id',
                         f'{mod}:{storecls}.extract_graph', f'{mod}:{storecls}.add_graph', f'{mod}:{storecls}.add_graph_direct',
                         f'{mod}:{storecls}.del_graph')
        props = ('C01',)
        bounded = gm.BOUND + '; text codecs and files as an assumed inverse pair (pyvc/iomodel.py); NodeIDs distinct within the graph'
        summaries = SUMMARIES
        max_paths = 60000
        cost = 60

        def inputs(self, g):
            w = gen_shared_world(g, extra_prop='Extra') if flavour == 'shared' else gen_disjoint_world(g, extra_prop='Extra')
            w.gN, w.gC = g.atom('gN'), g.atom('gC')
            for a, b in itertools.combinations([w.gA, w.gB, w.gN, w.gC], 2):
                if a is not w.gA or b is not w.gB:
                    g.assume(a.t != b.t)
            # the disjoint store documents that an import under the id of a graph it holds is skipped with a warning
            entry = g.pick([e for e in ENTRIES if flavour == 'shared' or e != 'string_replace_other'], 'import entry point')
            twice = g.choice(2, 'serialize the copy again?') == 0
            predelete = g.choice(2, 'original deleted before the import?') == 0
            # requires: the serialized graph is a well-formed model graph (distinct NodeIDs)
            G = graph_of(w.store, w.gA)
            ms = members(G, w.gA)
            # requires: there is something to serialize (serialize_graph documents None for a graph that is not there)
            g.assume(len(ms) > 0)
            for a, b in itertools.combinations(ms, 2):
                g.assume(g_attr(G, a, 'NodeID').t != g_attr(G, b, 'NodeID').t)
            return [handle(w, w.gA), w.gA, w.gB, w.gN, w.gC, entry, twice, predelete], {}

        def body(self, h, pg, gA, gB, gN, gC, entry, twice, predelete):
            paths = _Paths(h)
            w = _W(gA, gB, gN, gC)
            try:
                text = h.call(h.getattr(pg, 'serialize_graph'), format=fmt)
                if text is None:
                    return ('nothing to serialize', None, None)
                imp = h.getattr(pg, 'importer')
                if predelete:
                    h.call(h.getattr(imp, 'delete_graph'), graph_id=gA)
                r, want = do_import(h, imp, entry, text, paths, w)
                gid1 = h.getattr(r, 'graph_id')
                gid2 = None
                if twice:
                    text2 = h.call(h.getattr(r, 'serialize_graph'), format=fmt)
                    r2 = h.call(h.getattr(imp, 'import_graph_from_string'), graph_string=text2, graph_id=w.gC)
                    gid2 = h.getattr(r2, 'graph_id')
                return ('imported', gid1, gid2)
            finally:
                paths.done()

        @staticmethod
        def _copy_ok(pre, post):
            pg0, gA, gB, gN, gC, entry, twice, predelete = pre.args
            w = _W(gA, gB, gN, gC)
            store0, store1 = fldv(pg0, 'storage'), fldv(post.args[0], 'storage')
            G0 = graph_of(store0, w.gA)
            src = members(G0, w.gA)
            if not returned(post):
                return False
            tag, gid1, gid2 = post.result
            if not src:
                return tag == 'nothing to serialize'
            if tag != 'imported':
                return False
            direct = entry in ('string_direct', 'file_direct')
            want = {'string_keep': w.gA, 'file_keep': w.gA, 'string_new': w.gN, 'file_new': w.gN, 'string_replace_other': w.gB,
                    'string_direct': w.gA, 'file_direct': w.gA}.get(entry, gid1)
            if entry == 'string_fresh_uuid' and not (isinstance(gid1, str) and gid1 not in ('',)):
                return False
            if not same(gid1, want):
                return False
            G1 = graph_of(store1, want)
            if G1 is None:
                return False
            out = [content_same(G0, w.gA, G1, want, want)]
            if twice:
                G2 = graph_of(store1, w.gC)
                out.append(G2 is not None and same(gid2, w.gC) and content_same(G0, w.gA, G2, w.gC, w.gC))
            return And(*out)

        @staticmethod
        def _frame(pre, post):
            pg0, gA, gB, gN, gC, entry, twice, predelete = pre.args
            w = _W(gA, gB, gN, gC)
            store0 = fldv(pg0, 'storage')
            if not returned(post):
                return False
            tag, gid1, gid2 = post.result
            touched = [w.gA, w.gC, gid1] if tag == 'imported' else []
            if entry == 'string_replace_other':
                touched.append(w.gB)
            if entry in ('string_new', 'file_new'):
                touched.append(w.gN)
            return bystanders_untouched(store0, fldv(post.args[0], 'storage'), touched)

        ensures = {'roundtrip.same_content_and_reserializable': lambda pre, post: RoundTrip._copy_ok(pre, post),
                   'roundtrip.other_graphs_untouched': lambda pre, post: RoundTrip._frame(pre, post)}
    RoundTrip.__name__ = f'RoundTrip_{flavour}_{fmt.name.lower()}'
    return RoundTrip


CONTRACTS = [make_roundtrip(fl, fmt) for fl in ('shared', 'disjoint') for fmt in (GraphFormat.GRAPHML, GraphFormat.JSON_NODELINK)]
for _c in CONTRACTS:
    globals()[_c.__name__] = _c


# ------------------------------------------------------------------------------------------- (2) native contracts
HOSTILE = ['', ' lead', 'trail ', ' ', 'a"b', "a'b", '<x y="1">&amp;</x>', ']]>', '<!-- c -->', '&#13;', '&lt;', 'ünï©ødé ✓ 漢字 🙂',
           'tab\there', 'line\nbreak', '1', '007', '-3', '1.50', 'true', 'None', 'null', '{"json": [1, 2, {"k": null}]}', 'a,b;c',
           '\\n \\t \\\\', '%s {0} $x', 'x' * 300, "it's \"both\"", ' nbsp ', 'a b']
INTS = [0, 1, 7, -3, 2 ** 40]
CLASSES = ['NetworkNode', 'Component', 'NetworkService', 'ConnectionPoint', 'Link', 'CompositeNode']
RELS = ['has', 'connects', 'depends_on']


def gen_raw_graph(rnd, i, gid):
    import networkx as nx
    g = nx.Graph()
    n = rnd.randint(1, 6)
    for k in range(n):
        attrs = dict(NodeID=f'{rnd.choice(HOSTILE)}#{i}.{k}', Class=rnd.choice(CLASSES), Type=rnd.choice(['VM', 'GPU', 'OVS', 'x y']),
                     Name=rnd.choice(HOSTILE) or 'n', GraphID=gid)
        for key in rnd.sample(['Site', 'Details', 'Capacities', 'Labels', 'Extra_1', 'BootScript', 'UserData'], rnd.randint(0, 4)):
            attrs[key] = rnd.choice(HOSTILE + INTS)
        g.add_node(f'k{k}' if rnd.random() < 0.5 else 100 + k, **attrs)
    keys = list(g.nodes)
    for a, b in itertools.combinations(keys, 2):
        if rnd.random() < 0.45:
            attrs = dict(Class=rnd.choice(RELS))
            if rnd.random() < 0.4:
                attrs['Name'] = rnd.choice(HOSTILE + INTS)
            g.add_edge(a, b, **attrs)
    return g


def canon(G, gid=None):
    """canonical content of a real nx graph (optionally only the nodes of one graph id), by NodeID"""
    ids = {n: d['NodeID'] for n, d in G.nodes(data=True) if gid is None or d.get('GraphID') == gid}
    nodes = {ids[n]: {k: v for k, v in G.nodes[n].items() if k != 'GraphID'} for n in ids}
    edges = {}
    for a, b, d in G.edges(data=True):
        if a in ids and b in ids:
            edges[frozenset((ids[a], ids[b]))] = dict(d)
    gids = {G.nodes[n].get('GraphID') for n in ids}
    if len(nodes) != len(ids):
        nodes['<duplicate NodeIDs>'] = len(ids) - len(nodes)
    return nodes, edges, gids


def typed_equal(x, y):
    """equality that also compares types (1 vs '1' vs True)"""
    if type(x) is not type(y):
        return False
    if isinstance(x, dict):
        return x.keys() == y.keys() and all(typed_equal(x[k], y[k]) for k in x)
    return x == y


def store_graph_real(imp, gid):
    return imp.storage.extract_graph(gid)


def markup_ok(text):
    """every node carries labels=":GraphNode:<Class>" and every edge label="<Class>" (what the Neo4j importer needs)"""
    from lxml import etree
    ns = {'g': 'http://graphml.graphdrawing.org/xmlns'}
    tree = etree.fromstring(text.encode('utf-8'))
    keys = {(k.get('for'), k.get('attr.name')): k.get('id') for k in tree.findall('./g:key', ns)}
    bad = []
    for n in tree.findall('./g:graph/g:node', ns):
        d = n.find(f"g:data[@key='{keys.get(('node', 'Class'))}']", ns)
        if d is None or n.get('labels') != ':GraphNode:' + (d.text or ''):
            bad.append(('node', n.get('id'), n.get('labels')))
    for e in tree.findall('./g:graph/g:edge', ns):
        d = e.find(f"g:data[@key='{keys.get(('edge', 'Class'))}']", ns)
        if d is None or e.get('label') != (d.text or ''):
            bad.append(('edge', e.get('source'), e.get('target'), e.get('label')))
    return bad


def library_models():
    """[(description, importer factory, handle)] -- models held by the library: shipped substrate / advertisement models, the
    delegation models generated from them, and slice models built through the topology API"""
    import glob
    from fim.graph.resources.networkx_arm import NetworkXARMGraph
    import fim.user as fu
    out = []
    root = os.path.dirname(os.path.dirname(loader.func_info(NetworkXPropertyGraph.serialize_graph)['file']))
    root = os.path.dirname(root)
    imp = NetworkXGraphImporter()
    for f in sorted(glob.glob(os.path.join(root, '*-ad.graphml')) + [os.path.join(root, 'test', 'models', x) for x in
                                                                     ('Network-dev.graphml', 'advertised_topo.graphml')]):
        if not os.path.exists(f):
            continue
        g = imp.import_graph_from_file(graph_file=f)
        out.append((f'model file {os.path.basename(f)}', g))
        if f.endswith('-ad.graphml') and 'RENCI' in f:
            arm = NetworkXARMGraph(graph=g)
            for k, adm in arm.generate_adms().items():
                out.append((f'delegation model {k} of {os.path.basename(f)}', adm))
    t = fu.ExperimentTopology()
    n1 = t.add_node(name='n1', site='RENC', capacities=fu.Capacities(core=2, ram=8, disk=10))
    n2 = t.add_node(name='n2', site='UKY')
    n1.set_properties(boot_script='#!/bin/sh\necho "<a&b>" \'x\'\n', user_data=fu.UserData('{"k": "ü \\"q\\" <&>"}'))
    c1 = n1.add_component(name='nic1', model_type=fu.ComponentModelType.SmartNIC_ConnectX_6)
    c2 = n2.add_component(name='nic1', model_type=fu.ComponentModelType.SharedNIC_ConnectX_6)
    n1.add_component(name='gpu1', model_type=fu.ComponentModelType.GPU_Tesla_T4)
    t.add_network_service(name='br1', nstype=fu.ServiceType.L2STS, interfaces=[c1.interface_list[0], c2.interface_list[0]])
    t.add_facility(name='fac', site='RENC', capacities=fu.Capacities(bw=10))
    out.append(('slice model built through the topology API', t.graph_model))
    return out


class Pipeline_real(Contract):
    """the real pipeline (networkx GraphML / node-link writers and readers, lxml markup, json, real files) on generated inputs"""
    target = TP + 'NetworkXPropertyGraph.serialize_graph'
    props = ('C01',)
    bounded = 'generated raw property graphs (hostile strings, ints) and library models; count in the evidence'
    cost = 50

    @classmethod
    def run_custom(cls, tier, seed):
        import networkx as nx
        t0 = time.time()
        rnd = random.Random(1000 + seed)
        n_raw = 60 if tier == 'quick' else 600
        functions = {}
        for f in (NetworkXPropertyGraph.serialize_graph, NetworkXGraphImporter.import_graph_from_string,
                  NetworkXGraphImporter.import_graph_from_string_direct, NetworkXGraphImporter.import_graph_from_file_direct,
                  ABCGraphImporter.import_graph_from_file, ABCGraphImporter.get_graph_id, NetworkXGraphImporter._read_from_file,
                  GraphML.networkx_to_neo4j, GraphML.nx_write_graphml):
            i = loader.func_info(f)
            functions[i['qualname']] = dict(file=i['file'], first=i['first'], last=i['last'], sha=i['sha'])
        fails = {k: None for k in ('native.content_preserved_all_entry_points', 'native.reserialization_same_content',
                                   'native.neo4j_label_markup_on_every_node_and_edge', 'native.bystander_graph_untouched',
                                   'native.codec_model_assumption_graphml', 'native.codec_model_assumption_json',
                                   'native.markup_model_assumption', 'native.mixed_graph_ids_rejected',
                                   'native.library_models_roundtrip_and_validate', 'native.file_saved_again_holds_the_last_model')}
        count = dict(raw_graphs=0, roundtrips=0, library_models=0)
        tmp = tempfile.mkdtemp(prefix='c01n-')

        def fail(k, what):
            if fails[k] is None:
                fails[k] = what

        def one_roundtrip(mk_imp, src_graph, gid, fmt, entry, desc, direct_gid=None):
            """import src_graph as graph gid into a fresh store (next to a bystander), serialize, import through `entry`"""
            imp = mk_imp()
            imp.delete_all_graphs()
            by = nx.Graph()
            by.add_node('b', NodeID='bystander', Class='NetworkNode', Type='VM', Name='b', GraphID='by')
            imp.storage.add_graph_direct('by', by)
            imp.storage.add_graph_direct(gid, src_graph.copy())
            pg = imp.graph_class(graph_id=gid, importer=imp)
            before = canon(store_graph_real(imp, gid), gid)
            by_before = canon(store_graph_real(imp, 'by'), 'by')
            text = pg.serialize_graph(format=fmt)
            if fmt == GraphFormat.GRAPHML:
                bad = markup_ok(text)
                if bad:
                    fail('native.neo4j_label_markup_on_every_node_and_edge', dict(model=desc, missing=bad[:3]))
            path = os.path.join(tmp, 'g.txt')
            with open(path, 'w', encoding='utf-8') as f:
                f.write(text)
            want = gid
            if entry == 'string_keep':
                r = imp.import_graph_from_string(graph_string=text, graph_id=gid)
            elif entry == 'string_new':
                r, want = imp.import_graph_from_string(graph_string=text, graph_id='new-id'), 'new-id'
            elif entry == 'string_fresh_uuid':
                r = imp.import_graph_from_string(graph_string=text)
                want = r.graph_id
            elif entry == 'string_direct':
                r = imp.import_graph_from_string_direct(graph_string=text)
            elif entry == 'file_new':
                r, want = imp.import_graph_from_file(graph_file=path, graph_id='new-id'), 'new-id'
            else:
                r = imp.import_graph_from_file_direct(graph_file=path)
            count['roundtrips'] += 1
            if r is None or r.graph_id != want:
                fail('native.content_preserved_all_entry_points', dict(model=desc, format=fmt.name, entry=entry,
                                                                        observed=f'graph id {getattr(r, "graph_id", None)!r}, expected {want!r}'))
                return
            after = canon(store_graph_real(imp, want), want)
            if not (typed_equal(before[0], after[0]) and typed_equal(before[1], after[1]) and after[2] == {want}):
                diff = [k for k in before[0] if not typed_equal(before[0].get(k), after[0].get(k))][:2]
                fail('native.content_preserved_all_entry_points',
                     dict(model=desc, format=fmt.name, entry=entry, differing_nodes=[(k, before[0].get(k), after[0].get(k)) for k in diff],
                          edges_equal=typed_equal(before[1], after[1]), graph_ids=sorted(map(str, after[2]))))
            text2 = r.serialize_graph(format=fmt)
            r3 = imp.import_graph_from_string(graph_string=text2, graph_id='third')
            third = canon(store_graph_real(imp, 'third'), 'third')
            if not (typed_equal(before[0], third[0]) and typed_equal(before[1], third[1])):
                fail('native.reserialization_same_content', dict(model=desc, format=fmt.name, entry=entry))
            if not typed_equal(by_before, canon(store_graph_real(imp, 'by'), 'by')):
                fail('native.bystander_graph_untouched', dict(model=desc, format=fmt.name, entry=entry))

        entries = ['string_keep', 'string_new', 'string_fresh_uuid', 'string_direct', 'file_new', 'file_direct']
        try:
            for i in range(n_raw):
                g = gen_raw_graph(rnd, i, 'g1')
                count['raw_graphs'] += 1
                # the assumptions the glue contracts rest on (pyvc/iomodel.py), on the real libraries
                gm_text = '\n'.join(nx.generate_graphml(g))
                p = os.path.join(tmp, 'a.graphml')
                with open(p, 'w', encoding='utf-8') as f:
                    f.write(gm_text)
                back = nx.read_graphml(p)
                exp = nx.relabel_nodes(g, {n: str(n) for n in g.nodes}, copy=True)
                if not (typed_equal({n: dict(d) for n, d in exp.nodes(data=True)}, {n: dict(d) for n, d in back.nodes(data=True)})
                        and typed_equal({frozenset(e[:2]): e[2] for e in exp.edges(data=True)},
                                        {frozenset(e[:2]): e[2] for e in back.edges(data=True)})):
                    fail('native.codec_model_assumption_graphml', dict(graph=i))
                marked = GraphML.networkx_to_neo4j(gm_text)
                with open(p, 'w', encoding='utf-8') as f:
                    f.write(marked)
                back2 = nx.read_graphml(p)
                if not typed_equal({n: dict(d) for n, d in back.nodes(data=True)}, {n: dict(d) for n, d in back2.nodes(data=True)}) \
                        or not typed_equal({frozenset(e[:2]): e[2] for e in back.edges(data=True)},
                                           {frozenset(e[:2]): e[2] for e in back2.edges(data=True)}):
                    fail('native.markup_model_assumption', dict(graph=i))
                jb = nx.readwrite.node_link_graph(json.loads(json.dumps(nx.readwrite.node_link_data(g))))
                if not (typed_equal({n: dict(d) for n, d in g.nodes(data=True)}, {n: dict(d) for n, d in jb.nodes(data=True)})
                        and typed_equal({frozenset(e[:2]): e[2] for e in g.edges(data=True)},
                                        {frozenset(e[:2]): e[2] for e in jb.edges(data=True)})):
                    fail('native.codec_model_assumption_json', dict(graph=i))
                for mk_imp in (NetworkXGraphImporter, NetworkXGraphImporterDisjoint):
                    for fmt in (GraphFormat.GRAPHML, GraphFormat.JSON_NODELINK):
                        entry = entries[(i + (fmt == GraphFormat.JSON_NODELINK) + 2 * (mk_imp is NetworkXGraphImporterDisjoint)) % len(entries)]
                        try:
                            one_roundtrip(mk_imp, g, 'g1', fmt, entry, f'raw graph #{i} (seed {seed})')
                        except Exception as e:    # noqa
                            fail('native.content_preserved_all_entry_points',
                                 dict(model=f'raw graph #{i} (seed {seed})', format=fmt.name, entry=entry, store=mk_imp.__name__,
                                      raised=f'{type(e).__name__}: {str(e)[:200]}'))
            # mixed graph ids are rejected by the direct entry points
            mixed = gen_raw_graph(rnd, 9999, 'g1')
            mixed.add_node('other', NodeID='o', Class='Link', Type='L2Path', Name='o', GraphID='g2')
            p = os.path.join(tmp, 'mixed.graphml')
            GraphML.nx_write_graphml(mixed, p)
            try:
                NetworkXGraphImporter().import_graph_from_file_direct(graph_file=p)
                fail('native.mixed_graph_ids_rejected', dict(observed='a file whose nodes carry two GraphIDs was imported'))
            except PropertyGraphImportException:
                pass
            # models held by the library
            # Topology.serialize(file_name=...) over an existing, longer file: the file holds the model saved last
            import fim.user as fu
            try:
                NetworkXGraphImporter().delete_all_graphs()
                t = fu.ExperimentTopology()
                for nm in ('n1', 'n2', 'n3'):
                    n = t.add_node(name=nm, site='RENC', capacities=fu.Capacities(core=2, ram=8, disk=10))
                    n.add_component(name='nic', model_type=fu.ComponentModelType.SharedNIC_ConnectX_6)
                p = os.path.join(tmp, 'slice.graphml')
                t.serialize(file_name=p)
                t.remove_node('n3')
                t.remove_node('n2')
                for fmt in (GraphFormat.GRAPHML, GraphFormat.JSON_NODELINK):
                    t.serialize(file_name=p, fmt=fmt)
                    want = canon(t.graph_model.storage.extract_graph(t.graph_model.graph_id), t.graph_model.graph_id)
                    t2 = fu.ExperimentTopology()
                    t2.load(file_name=p)
                    got = canon(t2.graph_model.storage.extract_graph(t2.graph_model.graph_id), t2.graph_model.graph_id)
                    if not (typed_equal(want[0], got[0]) and typed_equal(want[1], got[1])):
                        fail('native.file_saved_again_holds_the_last_model', dict(format=fmt.name, nodes_saved=len(want[0]), nodes_loaded=len(got[0])))
            except Exception as e:   # noqa
                fail('native.file_saved_again_holds_the_last_model', dict(raised=f'{type(e).__name__}: {str(e)[:200]}'))
            models = []
            for desc, pg in library_models():
                # (the shared store is a process-wide singleton: take the content out before the round trips reset it)
                src = pg.storage.extract_graph(pg.graph_id)
                try:
                    pg.validate_graph()
                    valid_before = True
                except Exception:    # noqa
                    valid_before = False
                models.append((desc, src, valid_before))
            for desc, src, valid_before in models:
                count['library_models'] += 1
                for n in src.nodes:
                    src.nodes[n]['GraphID'] = 'lib'
                for fmt in (GraphFormat.GRAPHML, GraphFormat.JSON_NODELINK):
                    for entry in ('string_new', 'file_direct'):
                        try:
                            one_roundtrip(NetworkXGraphImporter, src, 'lib', fmt, entry, desc)
                        except Exception as e:   # noqa
                            fail('native.library_models_roundtrip_and_validate', dict(model=desc, format=fmt.name, entry=entry,
                                                                                      raised=f'{type(e).__name__}: {str(e)[:200]}'))
                # the library's own validation after import
                if valid_before:
                    imp = NetworkXGraphImporter()
                    imp.delete_all_graphs()
                    imp.storage.add_graph_direct('lib', src.copy())
                    pg = imp.graph_class(graph_id='lib', importer=imp)
                    for fmt in (GraphFormat.GRAPHML, GraphFormat.JSON_NODELINK):
                        try:
                            imp.import_graph_from_string(graph_string=pg.serialize_graph(format=fmt), graph_id='val').validate_graph()
                        except Exception as e:   # noqa
                            fail('native.library_models_roundtrip_and_validate',
                                 dict(model=desc, format=fmt.name, observed=f'valid before, after import: {type(e).__name__}: {str(e)[:200]}'))
                else:
                    fail('native.library_models_roundtrip_and_validate', dict(model=desc, observed='library model does not validate'))
        finally:
            shutil.rmtree(tmp, ignore_errors=True)
            NetworkXGraphImporter().delete_all_graphs()
        clauses = {}
        for k, w in fails.items():
            clauses[k] = dict(status='discharged' if w is None else 'violated', paths=count['roundtrips'], solver_s=0.0,
                              backend='native run of the real pipeline', witness=w, confirmed=w is not None, bounded=True,
                              reason='' if w is None else json.dumps(w, default=str)[:600])
        return dict(contract=cls.__name__, target=cls.target, clauses=clauses, paths=count['roundtrips'], feasible_paths=count['roundtrips'],
                    unsupported=[], faults=[], crosscheck=dict(compared=0, mismatches=[]), functions=functions,
                    bounded=[dict(contract=cls.__name__, bound=cls.bounded, obligations=sorted(clauses))],
                    trusted=[f'native bounded check: {count["raw_graphs"]} generated raw graphs x 2 stores x 2 formats, '
                             f'{count["library_models"]} library models, {count["roundtrips"]} round trips (seed {seed}, tier {tier}); '
                             f'carriage returns (normalised by every XML parser) and XML-illegal control characters are outside the statement'],
                    solver_calls=0, solver_s=0)


CONTRACTS.append(Pipeline_real)


# ------------------------------------------------------------------------------------------- Topology.serialize / Topology.load
from contracts import topo as _topo
from fim.user.topology import ExperimentTopology
from fim.slivers.network_service import ServiceType


class TopologySerializeLoad(Contract):
    """a slice model built through the real topology API, Topology.serialize (string or file) and Topology.load (string keeping
    the id, string with a new id, file) on a second topology object: same canonical content, and the loaded topology's views
    list the same elements"""
    target = 'fim.user.topology:Topology.serialize'
    extra_targets = ('fim.user.topology:Topology.load',)
    props = ('C01',)
    bounded = _topo.BOUND + '; one slice program (two nodes, a dedicated and a shared NIC, an L2 service) with symbolic sites; ' \
                            'text codecs and files as an assumed inverse pair (pyvc/iomodel.py)'
    summaries = {**_topo.SUMMARIES, **SUMMARIES}
    max_paths = 4000
    cost = 40

    def inputs(self, g):
        return [g.atom('site1'), g.atom('site2'), g.pick(['string_same_id', 'string_new_id', 'file'], 'load variant'),
                g.pick([GraphFormat.GRAPHML, GraphFormat.JSON_NODELINK], 'format'), g.atom('new_graph_id')], {}

    def body(self, h, site1, site2, variant, fmt, new_id):
        _topo.fresh_world(h)
        paths = _Paths(h)
        try:
            t = h.call(ExperimentTopology)
            n1 = h.call(h.getattr(t, 'add_node'), name='n1', site=site1)
            n2 = h.call(h.getattr(t, 'add_node'), name='n2', site=site2)
            c1 = h.call(h.getattr(n1, 'add_component'), name='nic1', model_type=_topo.CMT('SmartNIC_ConnectX_6'))
            c2 = h.call(h.getattr(n2, 'add_component'), name='nic2', model_type=_topo.CMT('SharedNIC_ConnectX_6'))
            ifs = [_topo.iface(h, c1, 'nic1-p1'), _topo.iface(h, c2, 'nic2-p1')]
            h.call(h.getattr(t, 'add_network_service'), name='br1', nstype=ServiceType.L2STS,
                   interfaces=PList(ifs) if h.mode == 'sym' else ifs)
            before = _topo.take(h, t)
            views0 = self.views(h, t)
            t2 = h.call(ExperimentTopology)
            if variant == 'file':
                p = paths.path('slice.graphml')
                h.call(h.getattr(t, 'serialize'), file_name=p, fmt=fmt)
                h.call(h.getattr(t2, 'load'), file_name=p)
            else:
                text = h.call(h.getattr(t, 'serialize'), fmt=fmt)
                if variant == 'string_new_id':
                    h.call(h.getattr(t2, 'load'), graph_string=text, new_graph_id=new_id)
                else:
                    h.call(h.getattr(t2, 'load'), graph_string=text)
            after = _topo.take(h, t2)
            views1 = self.views(h, t2)
            gid_before = h.getattr(h.getattr(t, 'graph_model'), 'graph_id')
            gid_after = h.getattr(h.getattr(t2, 'graph_model'), 'graph_id')
            return (before, after, views0, views1, gid_before, gid_after)
        finally:
            paths.done()

    @staticmethod
    def views(h, t):
        return tuple(sorted(str(k) for k in _topo.pylist(h.call(h.getattr(h.getattr(t, v), 'keys'))))
                     for v in ('nodes', 'network_services', 'links', 'facilities'))

    @staticmethod
    def _same(pre, post):
        if not returned(post):
            return False
        before, after, views0, views1, gid0, gid1 = post.result
        variant, new_id = pre.args[2], pre.args[4]
        want = new_id if variant == 'string_new_id' else gid0
        out = [content_same(before, gid0, after, gid1, want), same(gid1, want), views0 == views1, views0[0] == ['n1', 'n2']]
        return And(*out)

    ensures = {'topology.load_of_serialize_same_content_and_views': lambda pre, post: TopologySerializeLoad._same(pre, post)}


CONTRACTS.append(TopologySerializeLoad)
