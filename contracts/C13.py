"""
C13 -- Partitioning an aggregate model yields sound per-delegation models.

A family of small substrate models (worker - component - switch-side connection through ports and a link, a second worker, a
stitching node) is laid down in the store with delegation properties whose delegation IDS and DETAILS are symbolic (so the two
ids may coincide), each resource carrying only a capacity delegation, only a label delegation, both, or none; the real
generate_adms() (with catalog_delegations, get_delegations, _update_delegations_on_node, clone_graph, the neighbour queries and
delete_node underneath) and rewrite_delegations() run on it.  Obligations per returned partition: delegated resources present
with exactly their own entries, no foreign entry anywhere, sub-model of the original, closure of kept interfaces (link, peer,
owning service, its owner), stitch nodes everywhere, original untouched, re-keying changes only the key.
"""
import json

import z3

from pyvc.harness import Contract, snapshot
from pyvc.spec import And, Or, Not, Implies, Iff, eq, ne, same, returned, raised, Ite, fld, keys
from pyvc.values import PObj, PDict, PList, JsonText, LockVal, is_sym
from pyvc.nxmodel import NXGraph, ekey
from contracts import graphmodel as gm
from contracts.graphmodel import (g_nodes, g_attr, g_attrs, g_edges, g_eattrs, g_has_edge, fldv, dict_same, a_get, a_keys,
                                  same_val, build_graph, handle, World)
from fim.graph.networkx_property_graph import NetworkXPropertyGraph, NetworkXGraphImporter
from fim.graph.resources.networkx_arm import NetworkXARMGraph
from fim.graph.resources.abc_adm import ABCADMPropertyGraph
from fim.graph.resources.networkx_adm import NetworkXADMGraph
from fim.slivers.delegations import DelegationType

LEVEL = 'other'
BOUND = 'substrate models of the family below (<= 11 elements), 1..2 delegation ids (symbolic, may coincide), all detail values'

# element: (key, NodeID, Class, Type, Name)
ELEMENTS = [
    (1, 'w1', 'NetworkNode', 'Server', 'w1'), (2, 'c1', 'Component', 'SharedNIC', 'c1'), (3, 'ns1', 'NetworkService', 'OVS', 'ns1'),
    (4, 'p1', 'ConnectionPoint', 'SharedPort', 'p1'), (5, 'l1', 'Link', 'L2Path', 'l1'), (6, 'sp1', 'ConnectionPoint', 'TrunkPort', 'sp1'),
    (7, 'sf', 'NetworkService', 'MPLS', 'sf'), (8, 'sw', 'NetworkNode', 'Switch', 'sw'),
    (9, 'w2', 'NetworkNode', 'Server', 'w2'), (10, 'g2', 'Component', 'GPU', 'g2'),
    (11, 'fp', 'NetworkNode', 'Facility', 'fp'),
]
EDGES = [(1, 2, 'has'), (2, 3, 'has'), (3, 4, 'connects'), (4, 5, 'connects'), (5, 6, 'connects'), (6, 7, 'connects'), (8, 7, 'has'),
         (9, 10, 'has')]
CAP = 'CapacityDelegations'
LAB = 'LabelDelegations'


def deleg_json(g, did, kind, name):
    """JSON text of a Delegations container holding one single-resource delegation to `did`"""
    inner = PDict({'pool_id': '_'})
    if kind == CAP:
        inner.e['capacities'] = [True, PDict({'unit': g.int(f'{name}.unit', lo=1)})]
    else:
        inner.e['labels'] = [True, PDict({'local_name': g.str(f'{name}.lname')})]
    d = PDict()
    d.e[did] = [True, inner]
    return JsonText(d, False)


def gen_arm(g):
    w = World()
    w.dA, w.dB = g.atom('dA'), g.atom('dB')
    w.gid = g.atom('arm')
    shape = getattr(g, 'forced_shape', None) or g.pick(['one worker', 'two workers', 'two workers and a stitch node'], 'shape')
    with_w2 = shape != 'one worker'
    with_stitch = shape == 'two workers and a stitch node'
    nodes = []
    w.assign = {}
    for key, nid, cls, typ, nm in ELEMENTS:
        if nid in ('w2', 'g2') and not with_w2:
            continue
        if nid == 'fp' and not with_stitch:
            continue
        attrs = dict(GraphID=w.gid, NodeID=nid, Class=cls, Type=typ, Name=nm, StitchNode='true' if nid == 'fp' else 'false')
        nodes.append((key, attrs))
    present = {k for k, _ in nodes}

    def delegate(nid, key, kinds):
        which = g.pick(kinds, f'delegations on {nid}')
        if which == 'none':
            return
        did = g.pick([w.dA, w.dB], f'{nid} delegated to')
        w.assign[nid] = (did, which)
        attrs = dict(nodes)[key]
        if which in ('capacity only', 'both'):
            attrs[CAP] = deleg_json(g, did, CAP, nid)
        if which in ('label only', 'both'):
            attrs[LAB] = deleg_json(g, did, LAB, nid)
    delegate('w1', 1, ['none', 'capacity only', 'label only', 'both'])
    delegate('p1', 4, ['none', 'both'])
    delegate('sp1', 6, ['none', 'capacity only'])
    # a link may carry delegations too (bandwidth split between delegations); explored on the smallest shape only
    if shape == 'one worker':
        delegate('l1', 5, ['none', 'capacity only'])
    if with_w2:
        delegate('g2', 10, ['none', 'label only'])
    if with_stitch:
        # a stitching element may itself be delegated (it is still part of every partition, with its own entries only)
        delegate('fp', 11, ['none', 'label only'])
    edges = [(a, b, {'Class': r}) for a, b, r in EDGES if a in present and b in present]
    G = build_graph(nodes, edges)
    w.store = PObj(gm.SHARED, dict(graphs=G, start_id=20, log=None, lock=LockVal()))
    w.flavour = 'shared'
    imp = PObj(NetworkXGraphImporter, dict(storage=w.store, graph_class=NetworkXPropertyGraph, log=None))
    w.arm = PObj(NetworkXARMGraph, dict(graph_id=w.gid, importer=imp, log=None, storage=w.store, node_ids=None))
    return w


def store_graph_of(x):
    return fldv(fldv(x, 'storage'), 'graphs')


def members(G, gid):
    return [n for n in g_nodes(G) if _is(g_attr(G, n, 'GraphID'), gid)]


def _is(a, b):
    if is_sym(a) or is_sym(b):
        return a is b
    return a == b


def by_nodeid(G, gid):
    return {g_attr(G, n, 'NodeID'): n for n in members(G, gid)}


def deleg_ids(text):
    """delegation ids (keys) of a delegation property value (JsonText in symbolic mode, str in replay)"""
    if text is None:
        return []
    if isinstance(text, JsonText):
        return list(text.value.e.keys())
    return list(json.loads(text).keys())


class GenerateAdms(Contract):
    target = 'fim.graph.resources.abc_arm:ABCARMPropertyGraph.generate_adms'
    extra_targets = ('fim.graph.resources.abc_arm:ABCARMPropertyGraph.catalog_delegations',
                     'fim.graph.resources.abc_arm:ABCARMPropertyGraph.get_delegations',
                     'fim.graph.resources.abc_arm:ABCARMPropertyGraph._update_delegations_on_node')
    props = ('C13',)
    bounded = BOUND
    max_paths = 60000
    cost = 100
    crosscheck_result_only = True        # internal ids depend on the (unspecified) iteration order of a python set

    @staticmethod
    def canon(res):
        """(original, {delegation id: partition}) with graphs keyed by NodeID (real objects only: used by the cross-check)"""
        G0, adms = res

        def cg(G, gid):
            nodes = {d['NodeID']: {k: v for k, v in d.items() if k != 'GraphID'} for n, d in G.nodes(data=True) if d.get('GraphID') == gid}
            ids = {n: d['NodeID'] for n, d in G.nodes(data=True) if d.get('GraphID') == gid}
            edges = sorted(sorted([ids[a], ids[b]]) for a, b in G.edges if a in ids and b in ids)
            return dict(nodes=nodes, edges=edges)
        gid0 = next(iter(d.get('GraphID') for _, d in G0.nodes(data=True)), None)
        return dict(original=cg(G0, gid0), partitions={k: cg(a.storage.graphs, a.graph_id) for k, a in adms.items()})

    _shape = None

    def inputs(self, g):
        g.forced_shape = self._shape
        w = gen_arm(g)
        self._w = w
        return [w.arm, w.dA, w.dB], {}

    def body(self, h, arm, dA, dB):
        G0 = snapshot(store_graph_of(arm)) if h.mode == 'sym' else store_graph_of(arm).copy()
        if h.mode != 'sym':
            import copy
            G0 = copy.deepcopy(store_graph_of(arm))
        adms = h.call(type(arm).generate_adms if not isinstance(arm, PObj) else NetworkXARMGraph.generate_adms, arm)
        return (G0, adms)

    @staticmethod
    def _parts(pre, post):
        G0, adms = post.result
        out = [(k, adms.e[k][1]) for k in adms.e] if isinstance(adms, PDict) else list(adms.items())
        arm = post.args[0]
        G1 = store_graph_of(arm)
        gid = fldv(arm, 'graph_id')
        return G0, G1, gid, out

    @staticmethod
    def _c_original_untouched(pre, post):
        if not returned(post):
            return False
        G0, G1, gid, out = GenerateAdms._parts(pre, post)
        return gm.graph_same(G0, G1, keep=lambda n: n in set(members(G0, gid)))

    @staticmethod
    def _c_partitions(pre, post):
        """one partition per delegation id in use; per partition: own entries only, sub-model, closure, stitch nodes"""
        if not returned(post):
            return False
        G0, G1, gid, out = GenerateAdms._parts(pre, post)
        orig = by_nodeid(G0, gid)
        # delegation ids in use on the original
        used = []
        for nid, n in orig.items():
            for prop in (CAP, LAB):
                for d in deleg_ids(g_attr(G0, n, prop)):
                    if not any(_is(d, u) for u in used):
                        used.append(d)
        conds = []
        # which returned partition belongs to which used id (ids are symbolic: match by equality)
        for d in used:
            conds.append(Or(*[eq(k, d) for k, _ in out]))
        for k, adm in out:
            conds.append(Or(*[eq(k, d) for d in used]))
            Ga = store_graph_of(adm)
            agid = fldv(adm, 'graph_id')
            part = by_nodeid(Ga, agid)
            # sub-model: ids subset, other properties equal, original edges between kept nodes kept (and no others)
            if not set(part) <= set(orig):
                return False
            for nid, n in part.items():
                a0, a1 = g_attrs(G0, orig[nid]), g_attrs(Ga, n)
                for p in set(a_keys(a0)) | set(a_keys(a1)):
                    if p in (CAP, LAB, 'GraphID'):
                        continue
                    if p not in a_keys(a0) or p not in a_keys(a1):
                        return False
                    conds.append(same_val(a_get(a0, p), a_get(a1, p)))
                # exactly its own delegation entries: every entry kept is keyed by this partition's id, and every entry of the
                # original keyed by this id is kept
                for prop in (CAP, LAB):
                    kept = deleg_ids(a_get(a1, prop)) if prop in a_keys(a1) else []
                    had = deleg_ids(a_get(a0, prop)) if prop in a_keys(a0) else []
                    for d in kept:
                        conds.append(eq(d, k))
                    for d in had:
                        conds.append(Implies(eq(d, k), len(kept) == 1))
            for a, b in g_edges(G0):
                na, nb = g_attr(G0, a, 'NodeID'), g_attr(G0, b, 'NodeID')
                if na in part and nb in part:
                    if not g_has_edge(Ga, part[na], part[nb]):
                        return False
            for a, b in g_edges(Ga):
                if a in set(part.values()) and b in set(part.values()):
                    na, nb = g_attr(Ga, a, 'NodeID'), g_attr(Ga, b, 'NodeID')
                    if not g_has_edge(G0, orig[na], orig[nb]):
                        return False
            # every resource delegated to this id is present
            for nid, n in orig.items():
                for prop in (CAP, LAB):
                    for d in deleg_ids(g_attr(G0, n, prop)):
                        conds.append(Implies(eq(d, k), nid in part))
            # stitch nodes are in every partition
            for nid, n in orig.items():
                if g_attr(G0, n, 'StitchNode') == 'true' and nid not in part:
                    return False
            # closure: a kept interface keeps its link, its peer, its owning service and that service's owner
            for nid in part:
                n0 = orig[nid]
                if g_attr(G0, n0, 'Class') != 'ConnectionPoint':
                    continue
                for m in g_nodes(G0):
                    if m == n0 or not g_has_edge(G0, n0, m) or m not in set(orig.values()):
                        continue
                    cm = g_attr(G0, m, 'Class')
                    if cm == 'Link':
                        need = [m] + [q for q in g_nodes(G0) if q != n0 and g_has_edge(G0, m, q) and g_attr(G0, q, 'Class') == 'ConnectionPoint']
                    elif cm == 'NetworkService':
                        need = [m] + [q for q in g_nodes(G0) if g_has_edge(G0, m, q) and g_eattrs(G0, m, q) is not None
                                      and a_get(g_eattrs(G0, m, q), 'Class') == 'has']
                    else:
                        need = []
                    for q in need:
                        if g_attr(G0, q, 'NodeID') not in part:
                            return False
        return And(*conds)

    ensures = {'adm.original_untouched': lambda pre, post: GenerateAdms._c_original_untouched(pre, post),
               'adm.partitions_sound': lambda pre, post: GenerateAdms._c_partitions(pre, post)}


class RewriteDelegations(Contract):
    """re-keying a partition's delegations to a graph id changes only the key"""
    target = 'fim.graph.resources.abc_adm:ABCADMPropertyGraph.rewrite_delegations'
    props = ('C13', 'C14')
    bounded = BOUND
    max_paths = 60000
    cost = 30

    def inputs(self, g):
        w = World()
        did = g.atom('d')
        gid = g.atom('adm')
        nodes = []
        for key, nid in ((1, 'w1'), (2, 'c1'), (3, 'x1')):
            attrs = dict(GraphID=gid, NodeID=nid, Class='NetworkNode', Type='Server', Name=nid)
            which = g.pick(['none', 'capacity only', 'label only', 'both'], f'delegations on {nid}') if key < 3 else 'none'
            if which in ('capacity only', 'both'):
                attrs[CAP] = deleg_json(g, did, CAP, nid)
            if which in ('label only', 'both'):
                attrs[LAB] = deleg_json(g, did, LAB, nid)
            nodes.append((key, attrs))
        G = build_graph(nodes, [(1, 2, {'Class': 'has'})])
        store = PObj(gm.SHARED, dict(graphs=G, start_id=20, log=None, lock=LockVal()))
        imp = PObj(NetworkXGraphImporter, dict(storage=store, graph_class=NetworkXPropertyGraph, log=None))
        adm = PObj(NetworkXADMGraph, dict(graph_id=gid, importer=imp, log=None, storage=store))
        real = g.pick([None, g.atom('real_adm_id')], 'explicit id?')
        return [adm], dict(real_adm_id=real)

    def body(self, h, adm, **kw):
        import copy
        G0 = snapshot(store_graph_of(adm)) if h.mode == 'sym' else copy.deepcopy(store_graph_of(adm))
        h.call(NetworkXADMGraph.rewrite_delegations, adm, **kw)
        return G0

    @staticmethod
    def _c(pre, post):
        if not returned(post):
            return False
        G0 = post.result
        adm = post.args[0]
        G1 = store_graph_of(adm)
        newkey = pre.kwargs['real_adm_id'] if pre.kwargs['real_adm_id'] is not None else fldv(adm, 'graph_id')
        if set(g_nodes(G0)) != set(g_nodes(G1)) or set(g_edges(G0)) != set(g_edges(G1)):
            return False
        out = []
        for n in g_nodes(G0):
            a0, a1 = g_attrs(G0, n), g_attrs(G1, n)
            if set(a_keys(a0)) != set(a_keys(a1)):
                return False
            for p in a_keys(a0):
                if p in (CAP, LAB):
                    k0, k1 = deleg_ids(a_get(a0, p)), deleg_ids(a_get(a1, p))
                    if len(k0) != 1 or len(k1) != 1:
                        return False
                    out.append(eq(k1[0], newkey))
                    out.append(inner_same(a_get(a0, p), k0[0], a_get(a1, p), k1[0]))
                else:
                    out.append(same_val(a_get(a0, p), a_get(a1, p)))
        return And(*out)

    ensures = {'rekey.only_the_key_changes': lambda pre, post: RewriteDelegations._c(pre, post)}


def inner_same(t0, k0, t1, k1):
    from pyvc.spec import eq as seq
    if isinstance(t0, JsonText) and isinstance(t1, JsonText):
        from pyvc import models
        return models.json_value_eq(None, t0.value.e[k0][1], t1.value.e[k1][1], False)
    d0 = t0.value if isinstance(t0, JsonText) else json.loads(t0)
    d1 = t1.value if isinstance(t1, JsonText) else json.loads(t1)
    v0 = d0.e[k0][1] if isinstance(d0, PDict) else d0[k0]
    v1 = d1.e[k1][1] if isinstance(d1, PDict) else d1[k1]
    return seq(v0, v1)


def _by_shape(shape):
    class G(GenerateAdms):
        _shape = shape
    G.__name__ = 'GenerateAdms_' + shape.replace(' ', '_')
    return G


class PartitionRekeyPartitionAgain(Contract):
    """history: partition the aggregate model, re-key every partition's delegations to its graph id (as the broker does), then
    partition the SAME aggregate model again in the same process: the second result has the same partitions with the same
    content as the first had before re-keying, and the aggregate model is still untouched"""
    target = 'fim.graph.resources.abc_arm:ABCARMPropertyGraph.generate_adms'
    extra_targets = ('fim.graph.resources.abc_adm:ABCADMPropertyGraph.rewrite_delegations',
                     'fim.slivers.delegations:Delegations.from_json')
    props = ('C13',)
    bounded = 'one worker with its card, service and port (4 elements); capacity / label delegations on the worker and the port to two ids'
    max_paths = 20000
    cost = 60
    crosscheck_result_only = True

    @staticmethod
    def canon(res):
        return None

    def inputs(self, g):
        g.forced_shape = 'one worker'
        w = gen_arm(g)
        return [w.arm, w.dA, w.dB], {}

    @staticmethod
    def _content(adms):
        """{delegation id: {NodeID: {delegation property: ids}}} of a result of generate_adms"""
        out = []
        items_ = [(k, adms.e[k][1]) for k in adms.e] if isinstance(adms, PDict) else list(adms.items())
        for k, adm in items_:
            Ga, agid = store_graph_of(adm), fldv(adm, 'graph_id')
            part = by_nodeid(Ga, agid)
            out.append((k, {nid: {p: deleg_ids(g_attr(Ga, n, p)) for p in (CAP, LAB) if p in a_keys(g_attrs(Ga, n))} for nid, n in part.items()}))
        return out

    def body(self, h, arm, dA, dB):
        import copy
        G0 = snapshot(store_graph_of(arm)) if h.mode == 'sym' else copy.deepcopy(store_graph_of(arm))
        gen = NetworkXARMGraph.generate_adms
        first = h.call(gen, arm)
        c1 = self._content(first)
        rekeyed = []
        for k, adm in ([(k, first.e[k][1]) for k in first.e] if isinstance(first, PDict) else list(first.items())):
            # (the partitions come back as plain property-graph handles; the ADM method only needs the graph interface)
            h.call(ABCADMPropertyGraph.rewrite_delegations, adm)
            # re-keying is idempotent: doing it again (the entries already carry the graph id) changes nothing
            keyed = self._content({k: adm} if not isinstance(first, PDict) else PDict({k: adm}))
            h.call(ABCADMPropertyGraph.rewrite_delegations, adm)
            rekeyed.append((keyed, self._content({k: adm} if not isinstance(first, PDict) else PDict({k: adm}))))
        second = h.call(gen, arm)
        return (G0, c1, self._content(second), rekeyed)

    @staticmethod
    def _same(pre, post):
        if not returned(post):
            return False
        G0, c1, c2, rekeyed = post.result
        if len(c1) != len(c2):
            return False
        out = []
        for once, twice in rekeyed:
            (_, p1), (_, p2) = once[0], twice[0]
            if set(p1) != set(p2):
                return False
            for nid in p1:
                if set(p1[nid]) != set(p2[nid]):
                    return False
                for pr in p1[nid]:
                    out.append(len(p1[nid][pr]) == len(p2[nid][pr]) and And(*[eq(x, y) for x, y in zip(p1[nid][pr], p2[nid][pr])]))
        for k, part in c1:
            alts = []
            for k2, part2 in c2:
                if set(part) != set(part2):
                    alts.append(False)
                    continue
                conds = [eq(k, k2)]
                for nid in part:
                    if set(part[nid]) != set(part2[nid]):
                        conds.append(False)
                        continue
                    for p in part[nid]:
                        a, b = part[nid][p], part2[nid][p]
                        conds.append(len(a) == len(b) and And(*[eq(x, y) for x, y in zip(a, b)]))
                alts.append(And(*conds))
            out.append(Or(*alts))
        arm = post.args[0]
        gid = fldv(arm, 'graph_id')
        out.append(gm.graph_same(G0, store_graph_of(arm), keep=lambda n: n in set(members(G0, gid))))
        return And(*out)

    ensures = {'adm.second_partitioning_equals_the_first': lambda pre, post: PartitionRekeyPartitionAgain._same(pre, post)}


CONTRACTS = [_by_shape(s) for s in ('one worker', 'two workers', 'two workers and a stitch node')] + [RewriteDelegations,
                                                                                                       PartitionRekeyPartitionAgain]
for _c in CONTRACTS:
    globals()[_c.__name__] = _c
