"""
contracts.topo -- scenario harness for the topology-building API (fim.user) executed on its REAL source over the bounded
graph model.  A scenario is a short program of documented building calls with symbolic names / sites / ids where that
matters; a contract runs the scenario, takes canonical snapshots of the model around the operation under test, and states the
property over the snapshots (which are plain networkx graphs in replay mode and model graphs in symbolic mode).

Everything verified here is a BOUNDED result: the listed scenario programs (they cover each element kind, connected and
unconnected, shared and dedicated ports, node-level / component-level services) with all values of their symbolic arguments.
"""
import copy

from pyvc.harness import snapshot
from pyvc.spec import And, Or, Not, Implies, Iff, eq, same, Ite
from pyvc.values import PObj, PList, PDict, is_sym
from pyvc.nxmodel import NXGraph
from contracts import graphmodel as gm
from contracts.graphmodel import g_nodes, g_attr, g_attrs, g_edges, g_eattrs, g_has_edge, fldv, dict_same, a_get, a_keys
from contracts.common import SET_NAME
import fim.user as fu
from fim.user.topology import ExperimentTopology, SubstrateTopology
from fim.slivers.network_service import ServiceType
from fim.slivers.network_node import NodeType
from fim.slivers.interface_info import InterfaceType
from fim.slivers.attached_components import ComponentType
import fim.slivers.component_catalog as cc

BOUND = 'scenario programs of the topology-building API (see contracts/topo.py); all values of their symbolic arguments'
SUMMARIES = dict(SET_NAME)


def fresh_world(h):
    """symbolic mode: every path starts from an empty store (the singletons are class attributes of the store wrappers)"""
    if h.mode == 'sym':
        from fim.graph.networkx_property_graph import NetworkXGraphStorage
        from fim.graph.networkx_property_graph_disjoint import NetworkXGraphStorageDisjoint
        h.I.ctx.class_attrs[(NetworkXGraphStorage, 'storage_instance')] = None
        h.I.ctx.class_attrs[(NetworkXGraphStorageDisjoint, 'storage_instance')] = None


def iface(h, element, name):
    """the interface of `element` with this name (iteration order of interface lists is unspecified: they come out of sets)"""
    for i in pylist(h.getattr(element, 'interface_list')):
        if str(h.getattr(i, 'name')) == name:
            return i
    raise KeyError(name)


def pylist(x):
    """python list of the elements of a list / tuple / keys view in either mode"""
    from pyvc.values import PSet, DictView
    if isinstance(x, (PList, PSet)):
        return list(x.items)
    if isinstance(x, DictView):
        return [k for k in x.d.e] if x.kind == 'keys' else [v for (_, v) in x.d.e.values()]
    return list(x)


def CMT(name):
    return getattr(cc.ComponentModelType, name)


# ------------------------------------------------------------------------------------------- model access (both modes)
def model_of(t):
    """-> (graph object that stores the topology's model, graph id)"""
    gmodel = fldv(t, 'graph_model')
    gid = fldv(gmodel, 'graph_id')
    store = fldv(gmodel, 'storage')
    inst = fldv(store, 'storage_instance') if (isinstance(store, PObj) and 'storage_instance' in store.d.e) else store
    if isinstance(store, PObj) and 'graphs' not in store.d.e:
        # the NetworkXGraphStorage wrapper: its singleton lives in the class attribute
        raise RuntimeError('store wrapper without instance')
    return fldv(inst, 'graphs'), gid


def take(h, t):
    """canonical snapshot of the topology's model: a graph holding exactly the nodes of this graph id (and the edges among
    them); internal ids are renumbered 1..n in increasing order so that snapshots of different runs are comparable"""
    if h.mode == 'sym':
        I = h.I
        gmodel = t.d.e['graph_model'][1]
        gid = gmodel.d.e['graph_id'][1]
        store = I.getattr_(gmodel.d.e['storage'][1], 'graphs')
        if isinstance(store, PDict):
            # the one-graph-per-store back end: a dictionary graph id -> graph
            hits = [v[1] for k, v in store.e.items() if k is gid or (not is_sym(k) and not is_sym(gid) and k == gid)]
            store = hits[0] if hits else NXGraph()
        G = snapshot(store)
        keys = sorted(n for n in G.node.e if G.node.e[n][1].e.get('GraphID', [None, None])[1] is gid)
        rank = {n: i + 1 for i, n in enumerate(keys)}
        out = NXGraph()
        out.renumber = rank
        for n in keys:
            out.node.e[rank[n]] = G.node.e[n]
            out.adj_order[rank[n]] = []
        for (a, b), ent in G.edge.e.items():
            if a in rank and b in rank:
                out.edge.e[gm.ekey(rank[a], rank[b])] = ent
                out.adj_order[rank[a]].append(rank[b])
                out.adj_order[rank[b]].append(rank[a])
        return out
    import networkx as nx
    gid = t.graph_model.graph_id
    G = t.graph_model.storage.get_graph(gid)
    keys = sorted(n for n, d in G.nodes(data=True) if d.get('GraphID') == gid)
    rank = {n: i + 1 for i, n in enumerate(keys)}
    out = nx.Graph()
    for n in keys:
        out.add_node(rank[n], **copy.deepcopy(dict(G.nodes[n])))
    for a, b, d in G.edges(data=True):
        if a in rank and b in rank:
            out.add_edge(rank[a], rank[b], **copy.deepcopy(dict(d)))
    out.graph['renumber'] = rank
    return out


def renumbering(S):
    return S.renumber if isinstance(S, NXGraph) else S.graph['renumber']


def align(S0, S1):
    """S1 re-keyed with S0's numbering (both snapshots of the same model: surviving elements keep their internal id)"""
    r0, r1 = renumbering(S0), renumbering(S1)
    inv1 = {v: k for k, v in r1.items()}
    new_ids = [k for k in r1 if k not in r0]
    base = max(r0.values(), default=0)
    extra = {k: base + i + 1 for i, k in enumerate(sorted(new_ids))}
    mp = {r1[k]: (r0[k] if k in r0 else extra[k]) for k in r1}
    if isinstance(S1, NXGraph):
        out = NXGraph()
        for n in S1.node.e:
            out.node.e[mp[n]] = S1.node.e[n]
            out.adj_order[mp[n]] = []
        for (a, b), ent in S1.edge.e.items():
            out.edge.e[gm.ekey(mp[a], mp[b])] = ent
        return out
    import networkx as nx
    return nx.relabel_nodes(S1, mp, copy=True)


def cls_of(G, n):
    return g_attr(G, n, 'Class')


def typ_of(G, n):
    return g_attr(G, n, 'Type')


def name_of(G, n):
    return g_attr(G, n, 'Name')


def ecls(G, a, b):
    return a_get(g_eattrs(G, a, b), 'Class')


def nbrs(G, n, rel=None, cls=None):
    out = []
    for m in g_nodes(G):
        if m != n and g_has_edge(G, n, m):
            if rel is not None and ecls(G, n, m) != rel:
                continue
            if cls is not None and cls_of(G, m) != cls:
                continue
            out.append(m)
    return out


def find(G, cls, name):
    hits = [n for n in g_nodes(G) if cls_of(G, n) == cls and _same_name(name_of(G, n), name)]
    return hits


def _same_name(a, b):
    if is_sym(a) or is_sym(b):
        return a is b
    return a == b


RANK = {'NetworkNode': 0, 'CompositeNode': 0, 'Component': 1, 'NetworkService': 2, 'ConnectionPoint': 3, 'Link': 4}


def owned(G, root):
    """the element and everything it owns (containment goes Node -has-> Component -has-> NetworkService -connects->
    ConnectionPoint -connects-> child ConnectionPoint): neighbours of strictly lower containment rank, never Links"""
    out, stack = {root}, [root]
    while stack:
        x = stack.pop()
        for m in nbrs(G, x):
            if m in out or cls_of(G, m) == 'Link':
                continue
            rx, rm = RANK.get(cls_of(G, x), 9), RANK.get(cls_of(G, m), 9)
            down = rm > rx or (cls_of(G, x) == 'ConnectionPoint' and cls_of(G, m) == 'ConnectionPoint' and is_child_cp(G, x, m))
            if cls_of(G, x) == 'NetworkService' and cls_of(G, m) == 'ConnectionPoint':
                down = True
            if cls_of(G, x) == 'ConnectionPoint' and cls_of(G, m) == 'NetworkService':
                down = False
            if down:
                out.add(m)
                stack.append(m)
    return out


def is_child_cp(G, parent, child):
    return typ_of(G, child) == 'SubInterface' and typ_of(G, parent) != 'SubInterface'


def peering_artefacts(G, cps):
    """for every connection point in `cps` joined by a two-ended link to a service port: that port and the link;
    a link with more than two ends only loses this end (nothing else is deleted)"""
    out = set()
    for p in cps:
        if cls_of(G, p) != 'ConnectionPoint':
            continue
        for l in nbrs(G, p, cls='Link'):
            ends = nbrs(G, l, cls='ConnectionPoint')
            others = [q for q in ends if q != p]
            if len(ends) == 2:
                out.add(l)
                for q in others:
                    if typ_of(G, q) == 'ServicePort':
                        out.add(q)
    return out


def exactly_deleted(G0, G1, D):
    """G1 == G0 minus the nodes D: every other node keeps its attribute map, every edge between kept nodes is kept with
    its map, nothing is added"""
    G1 = align(G0, G1)
    keep = [n for n in g_nodes(G0) if n not in D]
    if set(g_nodes(G1)) != set(keep):
        return False
    return gm.graph_same(G0, G1, keep=lambda n: n not in D)


def graph_equal(G0, G1):
    return gm.graph_same(G0, align(G0, G1))
