"""
C10 -- Slice validation accepts a topology exactly when the constraint tables allow it.

For every service type, scenario programs build a slice through the real API (k = 0..3 connected interfaces from nodes whose
sites are SYMBOLIC -- so every placement / coincidence of sites is covered --, shared or dedicated ports, optional declared
site, optional forbidden property) and call the real Topology.validate(); the postcondition is two-sided against an oracle
computed from the PINNED constraint tables (a silent edit of the real tables fails table.pinned):
   validate() returns  <=>  min/max interface counts, number of sites spanned, declared-vs-inferred site, forbidden /
   required properties and permitted interface types all hold;  and after a successful validation a single-site service
   carries the inferred site.  Connecting refuses at once what the type cannot support (L2PTP with a shared port).
"""
from pyvc.harness import Contract
from pyvc.spec import And, Or, Not, Implies, Iff, eq, ne, same, returned, raised, Ite
from pyvc.values import PList
from pyvc import loader
from contracts import topo
from contracts.topo import CMT
from fim.user.topology import ExperimentTopology
from fim.slivers.network_service import NetworkServiceSliver, ServiceType
from fim.slivers.network_node import NodeSliver, NodeType
from fim.slivers.interface_info import InterfaceType

LEVEL = 'other'
NO = 0
PINNED = {
    'P4': dict(min=1, max=0, sites=1, inst=0, req=[], forb=['mirror_port', 'mirror_vlan', 'mirror_direction'], rit=[]),
    'OVS': dict(min=1, max=0, sites=1, inst=0, req=[], forb=['mirror_port', 'mirror_vlan', 'mirror_direction'], rit=[]),
    'VLAN': dict(min=1, max=0, sites=1, inst=0, req=[], forb=['mirror_port', 'mirror_vlan', 'mirror_direction', 'controller_url'], rit=[]),
    'MPLS': dict(min=1, max=0, sites=1, inst=0, req=[], forb=['mirror_port', 'mirror_vlan', 'mirror_direction', 'controller_url'], rit=[]),
    'L2Path': dict(min=1, max=2, sites=2, inst=0, req=[], forb=['mirror_port', 'mirror_vlan', 'mirror_direction', 'controller_url'], rit=[]),
    'L2STS': dict(min=2, max=0, sites=2, inst=0, req=[], forb=['mirror_port', 'mirror_vlan', 'mirror_direction', 'controller_url', 'ero'], rit=[]),
    'L2PTP': dict(min=2, max=2, sites=2, inst=0, req=[], forb=['mirror_port', 'mirror_vlan', 'mirror_direction', 'controller_url'],
                  rit=['DedicatedPort', 'FacilityPort', 'SubInterface']),
    'L2Multisite': dict(min=1, max=0, sites=0, inst=0, req=[], forb=['mirror_port', 'mirror_vlan', 'mirror_direction', 'controller_url'], rit=[]),
    'L2Bridge': dict(min=1, max=0, sites=1, inst=0, req=[], forb=['mirror_port', 'mirror_vlan', 'mirror_direction', 'controller_url'], rit=[]),
    'FABNetv4': dict(min=1, max=0, sites=1, inst=0, req=[], forb=['mirror_port', 'mirror_vlan', 'mirror_direction', 'controller_url'], rit=[]),
    'FABNetv6': dict(min=1, max=0, sites=1, inst=0, req=[], forb=['mirror_port', 'mirror_vlan', 'mirror_direction', 'controller_url'], rit=[]),
    'PortMirror': dict(min=1, max=1, sites=1, inst=0, req=['mirror_port', 'mirror_direction', 'site'], forb=['controller_url'], rit=[]),
    'L3VPN': dict(min=1, max=0, sites=0, inst=0, req=[], forb=['mirror_port', 'mirror_vlan', 'mirror_direction', 'controller_url'], rit=[]),
    'FABNetv4Ext': dict(min=1, max=0, sites=1, inst=0, req=[], forb=['mirror_port', 'mirror_vlan', 'mirror_direction', 'controller_url'], rit=[]),
    'FABNetv6Ext': dict(min=1, max=0, sites=1, inst=0, req=[], forb=['mirror_port', 'mirror_vlan', 'mirror_direction', 'controller_url'], rit=[]),
}
PINNED_NODES = {
    'Server': (['site'], []), 'VM': (['site'], []), 'Container': (['site'], []),
    'Switch': ([], ['attached_components_info', 'image_type', 'image_ref']),
    'NAS': ([], ['attached_components_info', 'image_type', 'image_ref']),
    'Facility': ([], ['attached_components_info', 'image_type', 'image_ref', 'management_ip']),
}


def real_tables():
    out = {}
    for k, v in NetworkServiceSliver.ServiceConstraints.items():
        out[k.name] = dict(min=v.min_interfaces, max=v.num_interfaces, sites=v.num_sites, inst=v.num_instances,
                           req=list(v.required_properties), forb=list(v.forbidden_properties),
                           rit=[str(x) for x in v.required_interface_types])
    nodes = {str(k): (list(v.required_properties), list(v.forbidden_properties)) for k, v in NodeSliver.NodeConstraints.items()}
    return out, nodes


class TablePinned(Contract):
    target = 'fim.user.network_service:NetworkService.validate_constraints'
    props = ('C10',)

    @classmethod
    def run_custom(cls, tier, seed):
        svc, nodes = real_tables()
        diffs = [f'{k}: real {svc.get(k)} != pinned {v}' for k, v in PINNED.items() if svc.get(k) != v]
        diffs += [f'{k}: not in the pinned table' for k in svc if k not in PINNED]
        diffs += [f'node {k}: real {nodes.get(k)} != pinned {v}' for k, v in PINNED_NODES.items() if nodes.get(k) != v]
        if NetworkServiceSliver.NO_LIMIT != NO:
            diffs.append('NO_LIMIT changed')
        from fim.user.topology import Topology
        info = loader.func_info(Topology.validate)
        st = dict(status='discharged' if not diffs else 'violated', paths=1, solver_s=0.0, backend='python ==', witness=dict(
            differences=diffs) if diffs else None, confirmed=bool(diffs), reason='; '.join(diffs)[:500])
        return dict(contract=cls.__name__, target=cls.target, clauses={'table.pinned': st}, paths=1, feasible_paths=1, unsupported=[],
                    faults=[], crosscheck=dict(compared=0, mismatches=[]), trusted=[], solver_calls=0, solver_s=0,
                    functions={info['qualname']: dict(file=info['file'], first=info['first'], last=info['last'], sha=info['sha'])})


def distinct_count(sites):
    n = 0
    for i, s in enumerate(sites):
        n = n + Ite(And(*[ne(s, t) for t in sites[:i]]), 1, 0)
    return n


def oracle(tname, sites, kinds, declared, forb_prop):
    """documented table semantics for an experiment topology; sites: owner sites of the connected interfaces"""
    c = PINNED[tname]
    k = len(sites)
    ok = [True]
    if c['min'] != NO:
        ok.append(k >= c['min'])
    if c['max'] != NO:
        ok.append(k <= c['max'])
    if c['sites'] != NO and k > 0:
        d = distinct_count(sites)
        ok.append(d <= c['sites'])
        if declared is not None:
            # a declared site must be the one site the service is attached at; a multi-site service declares none
            ok.append(And(eq(d, 1), eq(declared, sites[0])))
    if forb_prop is not None:
        ok.append(forb_prop not in c['forb'])
    if c['rit']:
        ok.append(all(kd in c['rit'] for kd in kinds))
    return And(*ok)


def make(tname):
    stype = ServiceType[tname]

    class V(Contract):
        target = 'fim.user.topology:Topology.validate'
        extra_targets = ('fim.user.network_service:NetworkService.validate_constraints', 'fim.user.node:Node.validate_constraints')
        props = ('C10',)
        bounded = topo.BOUND + '; services with 0..3 interfaces'
        summaries = topo.SUMMARIES
        max_paths = 4000
        cost = 60

        def inputs(self, g):
            k = g.pick([0, 1, 2, 3], 'number of connected interfaces')
            kinds = [g.pick(['SharedPort', 'DedicatedPort'], f'port kind {i}') if PINNED[tname]['rit'] else 'SharedPort' for i in range(k)]
            sites = [g.atom(f'site{i}') for i in range(k)]
            declared = g.pick(['none', 'same as first', 'other'], 'declared site') if k else 'none'
            dsite = None if declared == 'none' else (sites[0] if declared == 'same as first' else g.atom('declared'))
            forb = g.pick([None, 'controller_url'], 'a constrained property')
            moved = g.atom('moved_to') if (k and dsite is None and g.choice(2, 'first node moves afterwards?') == 0) else None
            return [PList(kinds), PList(sites), dsite, forb, moved], {}

        def body(self, h, kinds, sites, dsite, forb, moved):
            kinds, sites = topo.pylist(kinds), topo.pylist(sites)
            topo.fresh_world(h)
            t = h.call(ExperimentTopology)
            ifs = []
            nodes = []
            # names are unique in their scope only: the first two nodes are called so that "<node>-<card>-p1" is the SAME text
            # for both (service ports are named after it), the third repeats the card name of the first
            NAMES = [('ww-1', 'nic'), ('ww', '1-nic'), ('n2', 'nic')] if moved is None else [('n0', 'nic'), ('n1', 'nic'), ('n2', 'nic')]
            # (with the colliding names the topology-wide service view, a dictionary keyed by name, shows one of the two
            #  card-internal services only; the repeated-validation scenario keeps derived names distinct)
            for i, (kd, s) in enumerate(zip(kinds, sites)):
                nname, cname = NAMES[i]
                n = h.call(h.getattr(t, 'add_node'), name=nname, site=s)
                nodes.append(n)
                c = h.call(h.getattr(n, 'add_component'), name=cname,
                           model_type=CMT('SharedNIC_ConnectX_6') if kd == 'SharedPort' else CMT('SmartNIC_ConnectX_6'))
                ifs.append(topo.iface(h, c, cname + '-p1'))
            kw = {}
            if dsite is not None:
                kw['site'] = dsite
            if forb is not None:
                kw[forb] = 'http://controller'
            st, ns = h.attempt(h.getattr(t, 'add_network_service'), name='svc', nstype=stype,
                               interfaces=PList(ifs) if h.mode == 'sym' else ifs, **kw)
            if st == 'exc':
                return ('refused at connect', None, None)
            st, _ = h.attempt(h.getattr(t, 'validate'))
            site_after = h.getattr(ns, 'site')
            again = None
            if moved is not None and nodes:
                # history: the first node moves to another site, the SAME topology object is validated again
                h.setattr(nodes[0], 'site', moved)
                st2, _ = h.attempt(h.getattr(t, 'validate'))
                again = 'valid' if st2 == 'ok' else 'invalid'
            return ('valid' if st == 'ok' else 'invalid', site_after, again)

        @staticmethod
        def _c(pre, post):
            if not returned(post):
                return False
            kinds, sites, dsite, forb, moved = [topo.pylist(x) if i < 2 else x for i, x in enumerate(pre.args)]
            outcome, site_after, again = post.result
            guard = tname == 'L2PTP' and 'SharedPort' in kinds
            if outcome == 'refused at connect':
                return guard                  # only what the type cannot support is refused at once
            if guard:
                return False
            return Iff(outcome == 'valid', oracle(tname, sites, kinds, dsite, forb))

        @staticmethod
        def _site(pre, post):
            if not returned(post):
                return False
            kinds, sites = topo.pylist(pre.args[0]), topo.pylist(pre.args[1])
            outcome, site_after, again = post.result
            if outcome != 'valid' or not sites or PINNED[tname]['sites'] == NO:
                return True
            return Implies(eq(distinct_count(sites), 1), eq(site_after, sites[0]))

        @staticmethod
        def _again(pre, post):
            """after a node moved, validating the same topology object judges the NEW placement (a site recorded by the
            earlier validation counts as the declared site from then on)"""
            if not returned(post):
                return False
            kinds, sites, dsite, forb, moved = [topo.pylist(x) if i < 2 else x for i, x in enumerate(pre.args)]
            outcome, site_after, again = post.result
            if again is None or outcome != 'valid':
                return True           # (a failed validation may have recorded some sites and not others: not specified)
            new_sites = [moved] + list(sites[1:])
            # the successful first validation recorded the site of every single-site service, the card-internal service of the
            # moved node included; a recorded site counts as declared from then on, so the card's own service now disagrees
            # with its node unless the node "moved" to where it was
            return Iff(again == 'valid', And(oracle(tname, new_sites, kinds, site_after, forb), eq(moved, sites[0])))

        ensures = {'validate.iff_table_allows': lambda pre, post: V._c(pre, post),
                   'validate.judges_the_current_placement_when_repeated': lambda pre, post: V._again(pre, post),
                   'site.recorded_on_single_site_service': lambda pre, post: V._site(pre, post)}
    V.__name__ = f'Validate_{tname}'
    return V


CONTRACTS = [TablePinned] + [make(t) for t in PINNED if t not in ('PortMirror', 'P4', 'OVS')]
for _c in CONTRACTS:
    globals()[_c.__name__] = _c


# ------------------------------------------------------------------------------------------- a slice whose class derives from the slice class
class DerivedSliceTopology(ExperimentTopology):
    """what a user library does: its own slice class on top of the published one (nothing overridden)"""


class ValidateDerivedSlice(Contract):
    """the rules are those of the slice whether the topology object is an ExperimentTopology or an instance of a class derived
    from it: L2STS services with 0..3 shared ports on as many nodes at symbolic sites, judged by the published table"""
    target = 'fim.user.topology:Topology.validate'
    extra_targets = ('fim.user.network_service:NetworkService.validate_constraints',)
    props = ('C10',)
    bounded = topo.BOUND + '; one service type (L2STS), 0..3 interfaces'
    summaries = topo.SUMMARIES
    max_paths = 4000
    cost = 30

    def inputs(self, g):
        k = g.pick([0, 1, 2, 3], 'number of connected interfaces')
        return [PList([g.atom(f'site{i}') for i in range(k)]), g.pick(['derived class', 'published class'], 'class of the slice object')], {}

    def body(self, h, sites, which):
        sites = topo.pylist(sites)
        topo.fresh_world(h)
        t = h.call(DerivedSliceTopology if which == 'derived class' else ExperimentTopology)
        ifs = []
        for i, s in enumerate(sites):
            n = h.call(h.getattr(t, 'add_node'), name=f'n{i}', site=s)
            c = h.call(h.getattr(n, 'add_component'), name='nic', model_type=CMT('SharedNIC_ConnectX_6'))
            ifs.append(topo.iface(h, c, 'nic-p1'))
        st, ns = h.attempt(h.getattr(t, 'add_network_service'), name='svc', nstype=ServiceType.L2STS,
                           interfaces=PList(ifs) if h.mode == 'sym' else ifs)
        if st == 'exc':
            return 'refused at connect'
        st, _ = h.attempt(h.getattr(t, 'validate'))
        return 'valid' if st == 'ok' else 'invalid'

    @staticmethod
    def _c(pre, post):
        if not returned(post) or post.result == 'refused at connect':
            return False
        sites = topo.pylist(pre.args[0])
        return Iff(post.result == 'valid', oracle('L2STS', sites, ['SharedPort'] * len(sites), None, None))

    ensures = {'validate.iff_table_allows_whatever_the_slice_class': lambda pre, post: ValidateDerivedSlice._c(pre, post)}


CONTRACTS.append(ValidateDerivedSlice)


# ------------------------------------------------------------------------------------------- port mirror; declared site kept
from fim.slivers.network_service import MirrorDirection


class ValidatePortMirror(Contract):
    """a port-mirror service with its required properties (mirrored port name, direction -- every direction) and its one
    receiving dedicated port validates, and reads back the direction it was given"""
    target = 'fim.user.topology:Topology.validate'
    extra_targets = ('fim.user.topology:ExperimentTopology.add_port_mirror_service',)
    props = ('C10',)
    bounded = topo.BOUND + '; one port-mirror service per direction'
    summaries = topo.SUMMARIES
    max_paths = 2000
    cost = 20

    def inputs(self, g):
        return [g.pick(list(MirrorDirection), 'direction'), g.atom('site')], {}

    def body(self, h, direction, site):
        topo.fresh_world(h)
        t = h.call(ExperimentTopology)
        n = h.call(h.getattr(t, 'add_node'), name='n0', site=site)
        c = h.call(h.getattr(n, 'add_component'), name='nic', model_type=CMT('SmartNIC_ConnectX_6'))
        pm = h.call(h.getattr(t, 'add_port_mirror_service'), name='pm', from_interface_name='HundredGigE0/0/0/5',
                    to_interface=topo.iface(h, c, 'nic-p1'), direction=direction)
        st, _ = h.attempt(h.getattr(t, 'validate'))
        return (st, h.getattr(pm, 'mirror_direction'))

    ensures = {'validate.port_mirror_with_required_properties_is_valid': lambda pre, post: returned(post) and post.result[0] == 'ok'
               and post.result[1] is pre.args[0]}


class DeclaredSiteSurvivesReattachment(Contract):
    """history: a single-site service DECLARED at a site loses its only interface (disconnect, or removal of the node) and is
    attached to a node elsewhere: validation still compares with the declared site"""
    target = 'fim.user.topology:Topology.validate'
    extra_targets = ('fim.user.network_service:NetworkService.disconnect_interface', 'fim.user.network_service:NetworkService.connect_interface')
    props = ('C10',)
    bounded = topo.BOUND + '; one bridge declared at a site, detached and re-attached once'
    summaries = topo.SUMMARIES
    max_paths = 2000
    cost = 20

    def inputs(self, g):
        return [g.atom('site1'), g.atom('site2'), g.pick(['disconnect_interface', 'remove_node'], 'how the interface leaves')], {}

    def body(self, h, site1, site2, how):
        topo.fresh_world(h)
        t = h.call(ExperimentTopology)
        n1 = h.call(h.getattr(t, 'add_node'), name='n1', site=site1)
        c1 = h.call(h.getattr(n1, 'add_component'), name='nic', model_type=CMT('SharedNIC_ConnectX_6'))
        n2 = h.call(h.getattr(t, 'add_node'), name='n2', site=site2)
        c2 = h.call(h.getattr(n2, 'add_component'), name='nic', model_type=CMT('SharedNIC_ConnectX_6'))
        i1, i2 = topo.iface(h, c1, 'nic-p1'), topo.iface(h, c2, 'nic-p1')
        ns = h.call(h.getattr(t, 'add_network_service'), name='svc', nstype=ServiceType.L2Bridge, site=site1,
                    interfaces=PList([i1]) if h.mode == 'sym' else [i1])
        if how == 'disconnect_interface':
            h.call(h.getattr(ns, 'disconnect_interface'), i1)
        else:
            h.call(h.getattr(t, 'remove_node'), 'n1')
        h.call(h.getattr(ns, 'connect_interface'), i2)
        st, _ = h.attempt(h.getattr(t, 'validate'))
        return (st, h.getattr(ns, 'site'))

    ensures = {'validate.compares_with_the_declared_site_after_reattachment': lambda pre, post: returned(post) and And(
        Iff(post.result[0] == 'ok', eq(pre.args[0], pre.args[1])), eq(post.result[1], pre.args[0]))}


CONTRACTS += [ValidatePortMirror, DeclaredSiteSurvivesReattachment]
for _c in (ValidatePortMirror, DeclaredSiteSurvivesReattachment):
    globals()[_c.__name__] = _c
