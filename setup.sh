#!/bin/sh
# Build the overlay interpreter (offline): python 3.12 with z3/cvc5 + the repository's own deps via .pth.
set -e
cd "$(dirname "$0")"
if [ ! -x .ovenv/bin/python ] || ! .ovenv/bin/python -c "import z3, jsonschema, fim" 2>/dev/null; then
  rm -rf .ovenv
  /venv/bin/python -m venv .ovenv
  PIP_NO_INDEX=1 .ovenv/bin/pip install -q --no-index --find-links /opt/veriftools/wheels z3-solver cvc5 crosshair-tool deal icontract jsonschema
  echo "import site; site.addsitedir('/venv/lib/python3.12/site-packages')" > .ovenv/lib/python3.12/site-packages/repo_deps.pth
fi
.ovenv/bin/python -c "import z3, fim; print('overlay ok', z3.get_version_string(), fim.__file__)"
