#!/usr/bin/env python3
"""(re)generates the machine-maintained parts of DESIGN.md: the 'As built' paragraph of every property (from the claim texts
of tools/manifest.py), the status table figures (from obligations/*.json) and the seeded-change table (from seeded/*/meta.json).
Hand-written text lives in tools/design_asbuilt.md and tools/design_log.md and in DESIGN.md itself."""
import json, os, re, sys
ROOT = os.path.dirname(os.path.dirname(os.path.abspath(__file__)))
sys.path.insert(0, os.path.join(ROOT, 'tools'))


def seeded_table():
    rows = []
    d = os.path.join(ROOT, 'seeded')
    for name in sorted(os.listdir(d)):
        mp = os.path.join(d, name, 'meta.json')
        if not os.path.exists(mp):
            continue
        m = json.load(open(mp))
        c = m.get('confirmed', {})
        chk = c.get('check', {})
        obl = sorted({l.split('obligation=')[1].split()[0].split('/', 1)[1] for l in chk.get('lines', []) if 'obligation=' in l})
        verdict = 'caught' if c.get('caught') else ('superseded (patch no longer applies)' if c.get('patch_applies') is False else
                   'neutralised by a repair (demo passes on the changed tree)' if c.get('demo_on_changed_tree', {}).get('exit') == 0 else 'MISSED')
        summ = re.sub(r'\s+', ' ', m.get('summary', ''))[:230]
        rows.append(f"| {name} | {summ} | {'PASS' if c.get('demo_on_unchanged_tree', {}).get('exit') == 0 else '?'} / "
                    f"{'FAIL' if c.get('demo_on_changed_tree', {}).get('exit') == 1 else '?'} | {c.get('test_suite_on_changed_tree', '')[:22]} | "
                    f"**{verdict}** ({chk.get('wall_s', '?')} s) | {'; '.join(obl[:3])}{' ...' if len(obl) > 3 else ''} |")
    head = ("| change | what it does (sub-agent's summary) | demo clean / changed | suite on changed tree | `./check` on changed tree | "
            "first failed obligations |\n|---|---|---|---|---|---|\n")
    return head + '\n'.join(rows) + '\n'


def status_figures(s):
    """third column of the 0A.3 table <- committed inventories"""
    import fnmatch
    kf = []
    for l in open(os.path.join(ROOT, 'KNOWN_FINDINGS.jsonl')):
        l = l.strip()
        if l.startswith('{'):
            kf.append(json.loads(l))
    out = []
    a = s.index('### 0A.3 Per-property status')
    b = s.index('(The numbers are those of the committed inventories')
    head, region, tail = s[:a], s[a:b], s[b:]
    for line in region.split('\n'):
        m = re.match(r'\| (C\d\d) \| ([^|]*) \| ([^|]*) \|(.*)$', line)
        inv = os.path.join(ROOT, 'obligations', f'{m.group(1)}.json') if m else None
        if m and os.path.exists(inv) and 'obligations (proof-level' not in line:
            d = json.load(open(inv))
            b = sum(1 for v in d.values() if v.get('bounded'))
            known = [n for n in d for k in kf if any(fnmatch.fnmatchcase(n, p) for p in (k['obligation'] if isinstance(k['obligation'], list) else [k['obligation']]))]
            kn = len(set(known))
            kb = len({n for n in set(known) if d[n].get('bounded')})
            fig = f'{len(d) - b - (kn - kb)}{f" (+{kn - kb} known)" if kn - kb else ""} / {b}{f" ({kb} of them known)" if kb else ""}'
            line = f'| {m.group(1)} | {m.group(2)} | {fig} |{m.group(4)}'
        out.append(line)
    return head + '\n'.join(out) + tail


def asbuilt_paragraphs(s):
    """the 'As built' paragraph of every property <- the claim texts of tools/manifest.py"""
    import runpy
    g = runpy.run_path(os.path.join(ROOT, 'tools', 'manifest.py'))
    for pid, c in g['CLAIMS'].items():
        note = c.get('note', '').replace(g['BOUNDED_NOTE'], '(bounded store model, see 0A.2) ').replace(
            g['TOPO_NOTE'], '(scenario programs over the bounded graph model, see 0A.2) ')
        m = re.search(r'(### ' + pid + r' — [^\n]*\n\n)\*\*As built\*\*.*?(\n\n\*Plan \(written before the code\):\*)', s, flags=re.S)
        if not m:
            continue
        para = (f"**As built** (claimed level: `{c.get('category', 'proof')}`; `./check {pid}`; contracts in `contracts/{pid}.py`).  "
                f"{c['text']}\n\nAssumptions and limits: {note}  Deciding method: {c['technique']}.")
        s = s[:m.start()] + m.group(1) + para + m.group(2) + s[m.end():]
    return s


def main():
    p = os.path.join(ROOT, 'DESIGN.md')
    s = open(p).read()
    s = asbuilt_paragraphs(s)
    import importlib
    man = importlib.import_module('manifest') if False else None
    # seeded table
    tab = seeded_table()
    s = re.sub(r'<!-- SEEDED-TABLE-BEGIN -->.*?<!-- SEEDED-TABLE-END -->',
               lambda m: '<!-- SEEDED-TABLE-BEGIN -->\n' + tab + '<!-- SEEDED-TABLE-END -->', s, flags=re.S)
    s = status_figures(s)
    open(p, 'w').write(s)


if __name__ == '__main__':
    main()
