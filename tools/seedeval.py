#!/usr/bin/env python3
"""confirm sub-agent changes in a scratch worktree and run the registered quick check against them.
usage: [SEED_ROOT=/tmp/seed] seedeval.py <Cxx> [<Cxx> ...]   (reads $SEED_ROOT/out_<Cxx>/change*/; one scratch worktree
$SEED_ROOT/eval_<first Cxx> per invocation, so that several invocations can run side by side)"""
import json, os, shutil, subprocess, sys, time
VERIF = os.path.dirname(os.path.dirname(os.path.abspath(__file__)))
SUITE = "/venv/bin/python -m pytest -q -p no:cacheprovider --timeout=900 --continue-on-collection-errors"


def sh(cmd, cwd=None, env=None, timeout=3600):
    p = subprocess.run(cmd, shell=True, cwd=cwd, env=env, capture_output=True, text=True, timeout=timeout)
    return p.returncode, (p.stdout + p.stderr)


def main():
    root = os.environ.get('SEED_ROOT', '/tmp/seed')
    evalwt = f'{root}/eval_{sys.argv[1]}'
    if not os.path.isdir(evalwt):
        sh(f'git -C /repo worktree add -f {evalwt} HEAD')
    sh('git checkout -q --detach && git reset -q --hard $(git -C /repo rev-parse HEAD)', cwd=evalwt)
    results = []
    for pid in sys.argv[1:]:
        base = f'{root}/out_{pid}'
        for ch in sorted(d for d in os.listdir(base) if d.startswith('change')):
            d = os.path.join(base, ch)
            patch = os.path.join(d, 'patch.diff')
            if not os.path.exists(patch):
                continue
            rec = dict(property=pid, change=ch)
            sh('git checkout -q -- . && git clean -fdq', cwd=evalwt)
            shutil.copy(os.path.join(d, 'demo.py'), os.path.join(evalwt, 'demo_seed.py'))
            env = dict(os.environ, PYTHONPATH=evalwt)
            rc0, out0 = sh('/venv/bin/python demo_seed.py', cwd=evalwt, env=env)
            rec['demo_clean'] = (rc0, out0.strip()[-200:])
            rc, out = sh(f'git apply {patch}', cwd=evalwt)
            rec['applies_to_head'] = rc == 0
            if rc != 0:
                rec['apply_error'] = out[-300:]
                results.append(rec)
                print(json.dumps(rec)); continue
            rc1, out1 = sh('/venv/bin/python demo_seed.py', cwd=evalwt, env=env)
            rec['demo_changed'] = (rc1, out1.strip()[-300:])
            rcs, outs = sh(SUITE, cwd=evalwt, env=env)
            rec['suite'] = outs.strip().splitlines()[-1] if outs.strip() else ''
            t0 = time.time()
            rcc, outc = sh(f'./check {pid}', cwd=VERIF, env=env)
            rec['check_exit'] = rcc
            rec['check_wall_s'] = round(time.time() - t0)
            rec['check_lines'] = [l[:260] for l in outc.splitlines() if l.startswith(('VIOLATION', 'UNDECIDED', 'CHECKER-FAULT'))][:8]
            rec['check_summary'] = outc.strip().splitlines()[-1][:200] if outc.strip() else ''
            sh('git checkout -q -- . && git clean -fdq', cwd=evalwt)
            results.append(rec)
            print(json.dumps(rec), flush=True)
    json.dump(results, open(f'{root}/eval_results_{"_".join(sys.argv[1:])}.json', 'w'), indent=1)


main()
