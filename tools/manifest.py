#!/usr/bin/env python3
"""regenerates MANIFEST.json from the table below (keeps it valid at all times)"""
import json, os
ROOT = os.path.dirname(os.path.dirname(os.path.abspath(__file__)))
props = [json.loads(l) for l in open(os.path.join(ROOT, 'properties.jsonl'))]
BASE = "cd /repo && /venv/bin/python -m pytest -ra -q -p no:cacheprovider --timeout=900 --continue-on-collection-errors"
COMMON_NOTE = ("Trusted base: the home-built VC generator pyvc (symbolic execution of the real ASTs, z3 5.1 as back end, cvc5 for "
               "z3's unknowns), cross-checked against CPython on every explored path on every run; Python integers mathematical; "
               "library models listed in evidence.coverage.trusted_base; exception-message formatting and logging calls treated "
               "as total no-ops. ")
NA = {}
BOUNDED_NOTE = 'Bounded stand-in, not proof: real methods executed symbolically over every store of <= 3 nodes spread over two graph ids with symbolic NodeID/Class/Type/property values and edge classes (all equalities and collisions); networkx / networkx_query are an assumed model (pyvc/nxmodel.py) whose agreement with the real library is checked on every explored path by re-running the real code on a model of the path condition; the thin NetworkXGraphStorage singleton wrapper (__getattr__ forwarding) is bypassed. '
TOPO_NOTE = 'Bounded stand-in, not proof: scenario programs of the documented building calls are executed on the REAL fim.user / abc_property_graph / back-end source over the bounded graph model (pyvc/nxmodel.py, an assumed model of networkx cross-checked against the real library on every explored path by re-running the program natively); names are concrete, sites and generated ids symbolic; BaseSliver.set_name is used through its contract (C16). Coverage is the listed programs, not all histories. '
CLAIMS = {
    'C15': dict(
        text="Every algebraic law of the statement is a named obligation over the real Capacities/FreeCapacity source, discharged "
             "for all eight fields over unbounded integers on every path (add/sub field-wise, commutativity, (a+b)-b=a, free=total-"
             "allocated, free+allocated=total, operands unmodified, fits-within <=> no negative field of the difference, names of "
             "negative fields exact, equality reflexive/symmetric/field-wise, negative results representable and printable).",
        note="The text produced by the {v:,} format spec in Capacities.__str__ is opaque (formatting assumed total).",
        technique="contract-based deductive verification: sidecar contracts on the real functions, VCs generated from the real "
                  "AST per path, discharged by z3 (unbounded integers); counter-models replayed on the real code",
        design_ref="DESIGN.md section 3 C15"),
    'C03': dict(
        text="Per codec class the obligations decode(encode(x))==x (nothing set <=> '' <=> absent), encode(decode(encode(x)))==encode(x), "
             "encoding leaves x untouched, unknown keys tolerated with every known key kept, copy-with-changes returns a new value "
             "and leaves the original untouched are discharged on the real to_json/from_json/_set_fields/update source for all field "
             "values of the class's constructor domain (Capacities, CapacityHints, Labels, ReservationInfo, StructuralInfo, Location, "
             "Flags, Tags, User/Measurement/LayoutData, Gateway, PathInfo/ERO, MaintenanceInfo, legacy type:value tuples).",
        note="json.dumps/json.loads assumed mutually inverse and canonical under sort_keys (assumed library contract); list-valued "
             "fields are opaque values for the classes that only store them; Tags given as a list or decoded from text are proved for "
             "EVERY list length by the loop rule (pyvc.interp.gen_loop: generic element + witness element, a trusted induction "
             "schema whose side conditions are checked per path); the forms of length <= 2 (and argument tuples) are kept as "
             "bounded refutation aids and counted as bounded, not proved; the hop lists of a path are opaque values in the proved "
             "contract and real lists of <= 2 hops in a bounded companion. Unknown keys: any JSON scalar value, also a key named like "
             "a method of the class. Gateway, PathInfo/ERO, MaintenanceInfo and the legacy type:value tuples (string values: all strings; integer values: known finding KF-C03-1) have their own contracts.",
        technique="contract-based deductive verification: sidecar contracts on the real codec functions, per-path VCs from the real AST, "
                  "z3 + cvc5; json as an assumed inverse pair; counter-models replayed on the real code",
        design_ref="DESIGN.md section 3 C03"),
    'C18': dict(
        text="Sizing: for ALL requests -- z3 proves from the real filter lambda that the result depends on the request only through "
             "its cell in the grid cut by the catalogue's values, an AST frame check shows the request is read nowhere else, and the "
             "real function is then executed on one representative of every cell (complete finite quotient, 2450 cells) against the "
             "brute-force Pareto oracle (sufficient; no other sufficient size <= in every dimension; largest otherwise; name and "
             "capacities agree). Components: the real generate_component is executed symbolically for every catalogue entry with "
             "symbolic names, ids and label lists; type/model/details, exactly the catalogued ports, speeds, kinds, unit counts, id and "
             "label placement, service name/type and wrong-length rejection are discharged on every path; the enumeration, search and "
             "details functions are compared with the catalogue file exhaustively.",
        note="The two catalogue JSON files are the ones the library loads; BaseSliver.set_name replaced by its contract (proved in "
             "C16); uuid4 modelled as a fresh identifier; label lists per interface: no bdf / scalar bdf / bdf list of 2.",
        technique="contract-based deductive verification (z3 cell lemma + AST frame obligation) reducing all requests to a finite "
                  "quotient executed exhaustively on the real function; symbolic execution of generate_component against contracts",
        design_ref="DESIGN.md section 3 C18"),
    'C20': dict(
        text="Lock balance is proved for every method of both store classes on every path -- normal return, early return and every "
             "exceptional exit -- with the lock modelled by ghost state and EVERY library call made inside a method (networkx, "
             "networkx_query, list/len, logger, private helper) over-approximated by an unknown value that may also raise an arbitrary "
             "exception (all fault sequences at once). A refuted obligation is replayed on the real store class by making the named "
             "call raise and reading the real lock. Identifier allocation (ids fresh, counter ahead of all ids, exactly the incoming "
             "nodes added) is checked as sequential postconditions on the bounded graph model; under mutual exclusion of "
             "threading.Lock (trusted) critical sections are serialisable, which yields the concurrent half of the statement.",
        note="Thread interleavings are not enumerated: the schedule quantifier is discharged by the lock-invariant argument, which "
             "trusts threading.Lock and covers only operations that take the lock; loops over unknown collections are explored for "
             "0..2 iterations (their bodies contain no lock operation). Id allocation part: bounded (graphs <= 3 nodes).",
        technique="contract-based deductive verification with ghost lock state: exceptional postconditions on every path of the real "
                  "AST under havocked, faulting library calls; native fault-injection replay",
        design_ref="DESIGN.md section 3 C20"),
    'C06': dict(category='other',
        text="Bounded symbolic verification of the real query methods (get_first_neighbor, get_first_and_second_neighbor, "
             "get_nodes_on_shortest_path, get_nodes_on_path_with_hops and the mixin helpers) on both store flavours against the exact "
             "sets of the statement computed from the node/edge lists: every store with <= 3 nodes, all start/end nodes, relations, "
             "classes, hop lists of 0..2 hops (equal hops, end nodes, any order). One genuine defect repaired (shortest path with a relation), one recorded as known finding KF-C06-1 "
             "(second relation ignored; the repository's own test asserts the defective result).",
        note=BOUNDED_NOTE + "Path algorithms are networkx's own, run on the concrete shape.",
        technique="contracts on the real methods checked by bounded symbolic execution (pyvc over the bounded graph model), z3; "
                  "counter-models replayed on the real code",
        design_ref="DESIGN.md section 3 C06"),
    'C05': dict(category='other',
        text="Every public operation of both in-memory back ends (node/link property get/update/unset singly and in bulk, whole-graph "
             "update, listings by class/type, existence and uniqueness checks, add/delete node, add link, matching, merging, delete "
             "graph) is executed on its real source and checked against ONE contract per operation: result, exact new content, and "
             "exactly which calls raise; identity properties cannot be unset, Class cannot be changed, node id unique whatever the class, "
             "merge keeps all edges and applies the policy. Both back ends meeting the same contract is the agreement asked for.",
        note=BOUNDED_NOTE + "Operation SEQUENCES are covered by induction over per-call contracts from arbitrary (bounded) states, not "
             "by enumerating histories.",
        technique="per-operation L1 contracts checked by bounded symbolic execution of the real back-end methods (pyvc), z3; "
                  "counter-models replayed on the real code",
        design_ref="DESIGN.md section 3 C05"),
    'C04': dict(category='other',
        text="Frame conditions of the statement for every mutator of both back ends and for store-level import / re-import under the "
             "same id (incoming node keys colliding with stored ids) / add blank node / clone: nodes of other graphs keep their "
             "attribute maps and connections, no new node claims another graph's id, internal ids stay distinct and fresh, clone has "
             "the same content under the new id and shares no attribute map with its source.",
        note=BOUNDED_NOTE + "History quantifier: induction over per-call frames (stated, not mechanised).",
        technique="frame/ownership contracts on the real mutators checked by bounded symbolic execution (pyvc), z3; replay on real code",
        design_ref="DESIGN.md section 3 C04"),
    'C17': dict(
        text="The real NodeSliver.diff / NetworkServiceSliver.diff / InterfaceSliver.diff / BaseSliver.prop_diff (with _dict_diff, "
             "_dict_common, __eq__, __hash__, Labels/Capacities/JSON-blob equality) are executed for every combination of present / "
             "absent children over a small name alphabet with symbolic property values; obligations: added = names only in new, "
             "removed = names only in old, modified flags = exactly the tracked properties that differ (user data: JSON texts), "
             "None iff nothing differs, added(old,new) = removed(new,old), identical copy => no difference.",
        note="Child collections are drawn from {c1,c2} / {s1} / {i1,i2} / {sub1,sub2}; tracked properties carry one symbolic field each.",
        technique="contract-based deductive verification: set-algebra postconditions on the real diff functions, per-path VCs (z3), "
                  "counter-models replayed on the real code",
        design_ref="DESIGN.md section 3 C17"),
    'C11': dict(category='other',
        text="Per-sliver contribution contracts on the real collector methods: after a call every attribute list is the previous list "
             "plus exactly this sliver's contribution (site once, cpu/ram/disk, one entry per component, bandwidth, per-type site of "
             "externally routed services and of mirror services whose port is outside the slice), nothing collected earlier is removed, "
             "two services visited in either order give the same attribute sets; PDP request carries every attribute once in its "
             "category; lifetime arithmetic proved over unbounded integers; accounting counters increase by exactly the element's amount.",
        note="Bounded stand-in, not proof, for the attribute-collection half: prior attribute lists hold 0..2 symbolic entries, "
             "slivers carry <= 2 components / services (all values symbolic); only the lifetime arithmetic and the accounting "
             "tallies are discharged for all inputs. The walk over a whole "
             "topology object (_collect_attributes_from_topo) is executed on two slice programs built through the real API (bounded): "
             "attributes equal a direct tally, and a fresh collector gives the same result whatever was collected earlier in the "
             "process, and the port-mirror exemption follows the slice when the service using the mirrored port is removed. Collection "
             "from the serialized model (_collect_attributes_from_asm) is not mechanised.",
        technique="contract-based deductive verification: per-call contribution + monotonicity postconditions on the real methods, "
                  "order independence as a two-run lemma harness, z3; replay on real code",
        design_ref="DESIGN.md section 3 C11"),
    'C12': dict(category='other',
        text="Delegations.to_json/from_json round trip (ids, formats, pool names, details), rejection of wrong-kind details, details on "
             "a reference, duplicate ids and mixed types, single definition per pool, and pools -> per-node delegations -> pools "
             "regrouping are checked on the real functions with symbolic ids, pool names, node ids and detail values.",
        note="Bounded: containers of 1..2 delegations (and two members added in one call), pool families of <= 2 pools over 3 nodes "
             "plus three pools on disjoint node pairs with interleaving delegation ids (also re-indexed after an edit); the same text "
             "decoded twice with an edit in between. Known finding KF-C12-1 (a node needing "
             "two entries under one delegation id cannot be expressed) is recorded; one defect repaired (all-zero details).",
        technique="contracts on the real codec / regrouping functions checked by bounded symbolic execution (pyvc), z3; replay on real code",
        design_ref="DESIGN.md section 3 C12"),
    'C19': dict(
        text="Every statement-issuing operation of Neo4jPropertyGraph (29 operations), the import bookkeeping of Neo4jGraphImporter "
             "(_import_graph, delete_graph, delete_all_graphs) and the combined-model queries of Neo4jCBMGraph (6 operations) are "
             "executed on their real source around a recording stand-in for the driver, which may also refuse any one statement "
             "(so handlers that issue clean-up statements are explored); for every statement on every path: the text term (built by the real f-strings and "
             "concatenations, kept symbolic) mentions no VALUE symbol -- data independence for all values, decided on the term; every "
             "$parameter named in the text is supplied; with sample identifiers substituted the text is balanced, has no template "
             "residue and every variable it uses is bound. Eight operations splice values (known findings KF-C19-1..8, each with a "
             "companion obligation that fails as soon as any OTHER value reaches the text); two malformed statements repaired.",
        note="Cypher well-formedness is a light tokenizer (balance, residue, bound variables), not a Cypher parser; arguments are "
             "classified as identifiers or values by the contract; behaviour against a real server is out of reach (no Neo4j here); "
             "at most one refused statement per call is explored; the APOC import itself and index creation read files and are not "
             "executed.",
        technique="contract-based deductive verification: symbolic execution of the real statement-building code with string-provenance "
                  "terms (2-safety decided on the term), native two-value replay through a recording driver",
        design_ref="DESIGN.md section 3 C19"),
    'C07': dict(category='other',
        text="Programs of building calls (add/remove node, component, facility, service, sub-interface; connect/disconnect; "
             "peer/unpeer; set/unset property; rejected calls in between; attempts to create a second element of the same name in every "
             "scope, in the orders a guard could miss; ports with two sub-interfaces removed with their owner; interfaces connected one by "
             "one to an existing service) run on the real API, on both in-memory back ends; after EVERY call the statement's rule "
             "list (id/class/type/name from the pinned vocabularies, distinct ids, one owner per component, one parent per interface, "
             "links join interfaces only, one peer per service port, names unique in scope) is evaluated on the model; the read-only "
             "views are compared with the class listings; ViewOnlyDict offers no mutator; the rules file is pinned.",
        note=TOPO_NOTE,
        technique="representation-invariant contracts checked by bounded symbolic execution of the real building API (pyvc), z3",
        design_ref="DESIGN.md section 3 C07"),
    'C08': dict(category='other',
        text="Remove node / component / service, disconnect interface, remove sub-interface, unpeer: on canonical snapshots before and "
             "after, the deleted set is exactly owned(element) plus the peering artefacts (service-side port and link) and every other "
             "element, property and connection is unchanged; the handle the operation went through lists the same interfaces as a "
             "freshly looked-up handle. Topology shapes: plain, bridged, with a GPU, with connected sub-interfaces on the removed "
             "card, with a direct port-to-port link to another node, a connected port that also has a sub-interface, a service with a "
             "declared site; every scenario on both in-memory back ends; plus a substrate switch whose service loses a port through "
             "remove_interface, and two same-named sub-interfaces of one node connected to one service of which one is disconnected "
             "(five defects repaired).",
        note=TOPO_NOTE,
        technique="exact-deletion and frame postconditions checked by bounded symbolic execution of the real API (pyvc), z3; replay",
        design_ref="DESIGN.md section 3 C08"),
    'C09': dict(category='other',
        text="Twenty-two rejected calls (duplicate node / component name, unknown component model, interface already connected at the "
             "first or second position, L2PTP with a shared port at the second position, the same interface listed twice, a None "
             "entry after a good interface, connect of a connected interface, link to an interface of another model or to something "
             "that is not an interface, oversized boot script among good properties, colliding derived ids, facility / switch whose "
             "port arguments or duplicate port names are rejected after the node exists, a service id that belongs to another service, "
             "a card whose derived service name exists, a removed service's handle, an unknown parent, a nested id in use in a "
             "substrate model, a derived link name that is too long) each leave the model exactly as before (canonical snapshot "
             "equality on exceptional exit); six defects repaired.",
        note=TOPO_NOTE,
        technique="exceptional postconditions (raised => model unchanged) checked by bounded symbolic execution of the real API (pyvc)",
        design_ref="DESIGN.md section 3 C09"),
    'C10': dict(category='other',
        text="For 12 service types, slices with 0..3 connected interfaces from nodes whose sites are symbolic (every placement and "
             "coincidence of sites), optional declared site, optional forbidden property and shared / dedicated ports are built "
             "through the real API and validated by the real Topology.validate(); two-sided obligation against an oracle computed "
             "from the PINNED constraint tables (min/max interfaces, sites spanned, declared-vs-inferred site, forbidden properties, "
             "permitted interface types); a valid single-site service carries the inferred site; L2PTP refuses a shared port at "
             "connect time. Names are chosen so that derived port names of different nodes coincide; the same topology object is "
             "validated again after a node moved; a port-mirror service validates for every direction; a declared site survives "
             "detaching and re-attaching the only interface; the same verdicts are demanded when the slice object is an instance of "
             "a class derived from ExperimentTopology (L2STS, 0..3 interfaces). One defect repaired (declared site compared with itself).",
        note=TOPO_NOTE + "P4 / OVS services and the node-type constraint rows are pinned but not exercised by a scenario; PortMirror by one scenario "
             "per direction; "
             "num_instances is NO_LIMIT for every row, so the per-site instance rule is vacuous in the pinned table.",
        technique="two-sided validation contracts against a pinned-table oracle, checked by bounded symbolic execution of the real API",
        design_ref="DESIGN.md section 3 C10"),
    'C13': dict(category='other',
        text="A family of small substrate models (worker, component, ports, link, switch side, second worker, stitch node) with "
             "delegation properties whose ids and details are symbolic (ids may coincide; each resource with only capacity, only "
             "label, both or no delegation) is partitioned by the real generate_adms(): per partition -- delegated resources present "
             "with exactly their own entries, no foreign entry, sub-model of the original, closure of kept interfaces (link, peer, "
             "owning service, owner), stitch nodes everywhere -- and the original is untouched; rewrite_delegations changes only the "
             "key and is idempotent. The stitch element and (on the smallest shape) the link may carry delegations themselves. History: "
             "partition, re-key every partition, partition the same model again -> same partitions, original untouched. One defect "
             "repaired (node with a single kind of delegation).",
        note=BOUNDED_NOTE + "Model family: <= 11 elements, 1..2 delegation ids; pooled delegations are not in the family.",
        technique="contracts on the real partitioning functions checked by bounded symbolic execution over the bounded graph model",
        design_ref="DESIGN.md section 3 C13"),
    'C01': dict(category='other',
        text="Glue: the real serialize_graph / import_graph_from_string[_direct] / import_graph_from_file[_direct] / _read_from_file "
             "(format sniffing) / get_graph_id / extract_graph / add_graph / add_graph_direct / delete_graph source of both in-memory "
             "back ends, and Topology.serialize / Topology.load, are executed symbolically over the bounded store model with symbolic "
             "NodeID / Class / Type / Name / property values and edge classes; canonical content (matching by NodeID) is the same "
             "after import for both formats and every entry point (keep id, new id, id of another graph, fresh uuid, direct, file), "
             "GraphID kept or reassigned as asked, a second serialize + import gives the same content again, every other graph of "
             "the store is untouched. Text level: the same postconditions are evaluated natively on the real networkx / lxml / json "
             "pipeline over generated raw graphs with hostile strings (quotes, markup, non-ASCII, blanks, empty, digit strings) and "
             "ints, the shipped substrate / advertisement models, a generated delegation model and an API-built slice model, "
             "plus label markup on every node and edge, mixed-GraphID rejection, the library's own validation after import, and a "
             "file saved again over a longer earlier save.",
        note=BOUNDED_NOTE + "The text codecs (networkx GraphML and node-link writers/readers, json, lxml markup, temporary files) are "
             "outside the verifier's reach: in the glue contracts they are an ASSUMED inverse pair (pyvc/iomodel.py) and "
             "GraphML.networkx_to_neo4j an assumed summary; both assumptions are exercised natively on every run (60 generated graphs "
             "quick / 600 thorough, seed-dependent) -- a bounded run-time check, not proof. Requires a non-empty graph with distinct "
             "NodeIDs; carriage returns (normalised by XML parsers) and XML-illegal characters are outside the statement; the Neo4j "
             "back end is not executed (C19 covers its statements).",
        technique="contracts on the real serialization / import functions checked by bounded symbolic execution over the bounded "
                  "graph model with the text codecs as an assumed inverse pair, plus the same contracts evaluated at run time on the "
                  "real libraries over generated inputs (bounded)",
        design_ref="DESIGN.md section 3 C01"),
    'C02': dict(category='other',
        text="Per sliver kind (node, component, service, interface, link) and PER SETTABLE PROPERTY the real *_sliver_to_graph_"
             "properties_dict / *_sliver_from_graph_properties_dict pair is executed symbolically on a named sliver carrying a typed "
             "symbolic value of that property: the rebuilt sliver equals the original field by field (an object without any value may "
             "read back as absent, as JSONField documents) and the graph key written is the one SLIVER_PROPERTY_TO_GRAPH names, so "
             "unset removes what set wrote. Nested slivers (component / service / interface / sub-interface, node-level service) go "
             "through the real JSONSliver text form and through add_network_node_sliver + build_deep_node_sliver on a model graph and "
             "come back with the same structure and values. On elements built through the topology API set_property / get_property / "
             "unset_property read back equal, then absent (node, component, service, interface).",
        note=TOPO_NOTE + "One settable property at a time (not combinations); management_ip (ipaddress), maintenance_info, "
             "image_type alone, and the two delegation properties are not covered; the stored image reference is '<ref>,<type>' and "
             "the type is assumed to contain no comma; enum-valued properties take their first three members; JSON blob properties "
             "one fixed document; element level: two representative values per listed property (set, overwrite, unset, with a "
             "witness property that must survive); link elements not covered.",
        technique="contracts on the real conversion functions checked by bounded symbolic execution (per-property symbolic values, "
                  "z3 + cvc5 for string obligations), every path re-run on CPython",
        design_ref="DESIGN.md section 3 C02"),
    'C14': dict(category='other',
        text="The real merge_adm / unmerge_adm / _update_node_delegations / snapshot / rollback bodies run through the abstract graph "
             "interface on the in-memory shared store (combined-model handle backed by the NetworkX back end): two delegation models "
             "sharing one or two stitching elements (the second model may delegate on the shared element and may be the only one "
             "that connects the two shared elements) are merged in both orders, unmerged, merged again, snapshotted and rolled back; union with the shared "
             "element once, contributor sets, delegations keyed by the contributing model, order independence, sources untouched, "
             "unmerge = inverse of merge, rollback restores the snapshot (canonical comparison by NodeID).",
        note=BOUNDED_NOTE + "The typecast to Neo4jADMGraph inside merge_adm is substituted by the NetworkX ADM class (a handle on the "
             "same graph id). Families of 3..4 models and longer interleavings are not explored. Known finding KF-C14-1 (a connection "
             "between two shared elements contributed only by the unmerged model survives unmerge).",
        technique="contracts on the real merge / unmerge functions checked by bounded symbolic execution over the bounded graph model",
        design_ref="DESIGN.md section 3 C14"),
    'C16': dict(
        text="For every label field the real Labels._set_fields is proved, for all strings, to accept exactly the documented domain "
             "(published pattern matched against the whole string with CPython regex semantics incl. Unicode classes, plus the "
             "published numeric range), to store exactly the given value and to leave the object unchanged on rejection; constructor, "
             "copy-with-changes, decoding and re-encoding are proved modularly against that contract; same two-sided obligations for "
             "Capacities._set_fields, Tags._check, the three JSON blob classes (size limit and JSON validity), set_name of the five "
             "sliver classes and set_boot_script; the validator tables are pinned.",
        note="re semantics: translation of CPython's own parse tree to SMT regexes, sampled against the real engine; minterm "
             "abstraction of the non-ASCII alphabet; int(str) exact on ASCII digit strings and uninterpreted elsewhere; list-valued "
             "labels and tag lists of EVERY length are proved with the loop rule (pyvc.interp.gen_loop: the loop body is executed on "
             "a generic element and on a witness element; side conditions -- no heap write in a completing iteration, no "
             "break/return, loop-bound names dead afterwards, copy statements `x.append(elem)` into an empty list -- are checked "
             "per path; the induction over the list is the rule's, a trusted schema listed in trusted_base); the forms of length "
             "<= 2 are kept as bounded refutation aids (counted as bounded); model-element property assignment (fim.user) reduces to these setters "
             "and is not separately proved.",
        technique="contract-based deductive verification: two-sided validator contracts (accept <=> documented domain) on the real "
                  "functions, regex/string VCs discharged by z3 with cvc5 taking z3's unknowns; callers verified against the callee contract",
        design_ref="DESIGN.md section 3 C16"),
}
checks, na = [], []
for p in props:
    pid = p['id']
    if pid in CLAIMS:
        c = CLAIMS[pid]
        checks.append(dict(property_id=pid, quick_cmd=f"./check {pid} --tier quick", thorough_cmd=f"./check {pid} --tier thorough",
                           evidence_file=f"/verif/evidence/{pid}.json", replay_cmd_template=f"./check {pid} --replay {{path}}",
                           engine="pyvc", level_claimed=dict(category=c.get('category', 'proof'), text=c['text'], design_ref=c['design_ref']),
                           level_note=COMMON_NOTE + c['note'], technique=c['technique']))
    else:
        na.append(dict(property_id=pid, reason=NA.get(pid, "check under construction (DESIGN.md section 6 build order); not yet claimed")))
m = dict(version=1, setup_cmd="./setup.sh",
         hooks=dict(guard="FIM_VERIF", enable="no hooks in /repo: contracts are sidecar files under /verif/contracts; the real source is "
                    "located through the live function objects and parsed with ast on every run", baseline_off_cmd=BASE,
                    source_commits=[], add_only=True),
         engines=[dict(name="pyvc", path="/verif/pyvc", serves_properties=sorted(CLAIMS),
                       kind_free_text="home-built VC generator: path-wise symbolic execution of the real function ASTs against sidecar "
                       "contracts; obligations discharged by z3 (cvc5 portfolio); counter-models replayed on the real code")],
         checks=checks, not_applicable=na,
         notes="Exit codes of ./check: 0 held, 1 VIOLATION, 2 UNDECIDED (solver unknown / construct outside the subset), 3 CHECKER-FAULT.")
json.dump(m, open(os.path.join(ROOT, 'MANIFEST.json'), 'w'), indent=1)
print('claimed', sorted(CLAIMS), 'not_applicable', len(na))
