#!/usr/bin/env python3
"""keep sub-agent changes evaluated with tools/seedeval.py:  seedkeep.py <SEED_ROOT> <offset> <Cxx> [...]
copies $SEED_ROOT/out_<Cxx>/change<i>/ to seeded/<Cxx>-<i+offset>/ and writes the observations of seedeval
($SEED_ROOT/eval_<Cxx>.log) into meta.json['confirmed'] (same layout as tools/seedrun.py).  Follow-up observations made
by hand after a check was strengthened are read from $SEED_ROOT/followup.json  {"Cxx/change<i>": {...}}."""
import json, os, shutil, sys
VERIF = os.path.dirname(os.path.dirname(os.path.abspath(__file__)))
root, offset, pids = sys.argv[1], int(sys.argv[2]), sys.argv[3:]
fu_all = json.load(open(f'{root}/followup.json')) if os.path.exists(f'{root}/followup.json') else {}
for p in pids:
    res = {}
    for l in open(f'{root}/eval_{p}.log'):
        try:
            d = json.loads(l)
        except Exception:
            continue
        res[d['change']] = d
    for ch in sorted(x for x in os.listdir(f'{root}/out_{p}') if x.startswith('change')):
        src = f'{root}/out_{p}/{ch}'
        if not os.path.exists(src + '/patch.diff'):
            continue
        dst = f'{VERIF}/seeded/{p}-{int(ch[6:]) + offset}'
        os.makedirs(dst, exist_ok=True)
        shutil.copy(src + '/demo.py', dst + '/demo.py')
        if os.path.exists(src + '/patch_rebased.diff'):
            shutil.copy(src + '/patch.diff', dst + '/patch_orig.diff')
            shutil.copy(src + '/patch_rebased.diff', dst + '/patch.diff')
        else:
            shutil.copy(src + '/patch.diff', dst + '/patch.diff')
        meta = json.load(open(src + '/meta.json'))
        meta['property'] = p
        meta['round'] = 4
        r = res.get(ch, {})
        fu = fu_all.get(f'{p}/{ch}')

        def pair(x):
            return dict(exit=x[0], tail=x[1]) if x else {}
        first_exit = r.get('check_exit')
        lines = list(r.get('check_lines') or [])
        conf = dict(repo_head=r.get('repo_head', ''), method='scratch worktree of /repo (tools/seedeval.py): demo on the clean tree, git apply, demo, the '
                    'repository\'s suite, ./check with PYTHONPATH pointing at the changed worktree; worktree removed afterwards',
                    demo_on_unchanged_tree=pair(r.get('demo_clean')), patch_applies=r.get('applies_to_head'),
                    demo_on_changed_tree=pair(r.get('demo_changed')), test_suite_on_changed_tree=r.get('suite') or '',
                    check=dict(cmd=f'./check {p}', exit=first_exit, wall_s=r.get('check_wall_s'), lines=lines, summary=r.get('check_summary')),
                    caught_at_first_run=first_exit == 1)
        if fu:
            conf['follow_up'] = fu
            a = fu.get('check_after', {})
            if a.get('exit') == 1:
                conf['check'] = dict(cmd=a.get('cmd'), exit=1, wall_s=a.get('wall_s', '?'), lines=a.get('lines', []),
                                     summary='after strengthening; first run: ' + fu.get('first_run', fu.get('note', '')))
                if a.get('demo_on_changed_tree') is not None:
                    conf['demo_on_changed_tree'] = dict(exit=a['demo_on_changed_tree'])
                    conf['demo_on_unchanged_tree'] = conf['demo_on_unchanged_tree'] or dict(exit=0)
                    conf['test_suite_on_changed_tree'] = a.get('suite', '')
                    conf['patch_applies'] = True
        conf['caught'] = conf['check'].get('exit') == 1
        meta['confirmed'] = conf
        json.dump(meta, open(dst + '/meta.json', 'w'), indent=1)
        print(dst, 'first run caught' if conf['caught_at_first_run'] else 'first run MISSED', '-> caught' if conf['caught'] else '-> NOT caught')
