#!/usr/bin/env python3
"""
Seeded property-breaking changes (written by sub-agents that saw only the property text) live in /verif/seeded/<prop>-<n>/
(patch.diff, demo.py, meta.json).  This tool

  seedrun.py keep <Cxx> [...]     copy /tmp/seed/out_<Cxx>/change*/ into /verif/seeded/   (keep2: second round, /tmp/seed2)
  seedrun.py run [<dir> ...]      for each kept change: demo on the clean tree, `git -C /repo apply`, demo, the repository's
                                  test suite, the registered quick check of the property, `git -C /repo checkout -- .`;
                                  what was observed is written into meta.json under "confirmed"

Nothing is ever committed to /repo; the working tree is restored after every change (also when a step fails).
The checks' evidence files are rewritten by these runs: re-run the checks on the unchanged tree afterwards.
"""
import json, os, shutil, subprocess, sys, time
VERIF = os.path.dirname(os.path.dirname(os.path.abspath(__file__)))
SEEDED = os.path.join(VERIF, 'seeded')
SUITE = "/venv/bin/python -m pytest -q -p no:cacheprovider --timeout=900 --continue-on-collection-errors"


def sh(cmd, cwd=None, timeout=7200):
    p = subprocess.run(cmd, shell=True, cwd=cwd, capture_output=True, text=True, timeout=timeout)
    return p.returncode, (p.stdout + p.stderr)


def keep(pids, root='/tmp/seed', offset=0):
    for pid in pids:
        base = f'{root}/out_{pid}'
        for ch in sorted(d for d in os.listdir(base) if d.startswith('change')):
            src = os.path.join(base, ch)
            if not os.path.exists(os.path.join(src, 'patch.diff')):
                continue
            dst = os.path.join(SEEDED, f'{pid}-{int(ch.replace("change", "")) + offset}')
            os.makedirs(dst, exist_ok=True)
            for f in ('patch.diff', 'demo.py', 'meta.json'):
                shutil.copy(os.path.join(src, f), os.path.join(dst, f))
            print('kept', dst)


def snapshot_verif():
    """a frozen copy of the checks (so that editing /verif while a long evaluation runs does not disturb it)"""
    snap = '/tmp/verif_snap'
    sh(f'rm -rf {snap} && mkdir -p {snap} && rsync -a --exclude .git --exclude replays --exclude .ovenv --exclude seeded {VERIF}/ {snap}/ '
       f'&& ln -s {VERIF}/.ovenv {snap}/.ovenv')
    return snap


def run(dirs):
    check_dir = snapshot_verif() if os.environ.get('SEEDRUN_SNAPSHOT') else VERIF
    assert sh('git -C /repo status --porcelain --untracked-files=no')[1].strip() == '', '/repo has uncommitted changes'
    head = sh('git -C /repo rev-parse --short HEAD')[1].strip()
    for d in dirs:
        d = os.path.join(SEEDED, d) if not os.path.isabs(d) else d
        meta_p = os.path.join(d, 'meta.json')
        meta = json.load(open(meta_p))
        pid = meta['property']
        patch = os.path.join(d, 'patch.diff')
        rec = dict(repo_head=head, when=time.strftime('%Y-%m-%d %H:%M:%S'))
        demo = '/repo/demo_seed.py'
        try:
            shutil.copy(os.path.join(d, 'demo.py'), demo)
            rc, out = sh('/venv/bin/python demo_seed.py', cwd='/repo')
            rec['demo_on_unchanged_tree'] = dict(exit=rc, tail=out.strip()[-160:])
            rc, out = sh(f'git -C /repo apply {patch}')
            rec['patch_applies'] = rc == 0
            if rc == 0:
                rc, out = sh('/venv/bin/python demo_seed.py', cwd='/repo')
                rec['demo_on_changed_tree'] = dict(exit=rc, tail=out.strip()[-300:])
                os.remove(demo)
                rc, out = sh(SUITE, cwd='/repo')
                rec['test_suite_on_changed_tree'] = out.strip().splitlines()[-1] if out.strip() else ''
                t0 = time.time()
                rc, out = sh(f'./check {pid}', cwd=check_dir)
                rec['check'] = dict(cmd=f'./check {pid}', exit=rc, wall_s=round(time.time() - t0),
                                    lines=[l[:300] for l in out.splitlines() if l.startswith(('VIOLATION', 'UNDECIDED', 'CHECKER-FAULT'))][:6],
                                    summary=out.strip().splitlines()[-1][:220] if out.strip() else '')
                rec['caught'] = rc == 1 and any(l.startswith('VIOLATION') for l in out.splitlines())
            else:
                rec['apply_error'] = out[-300:]
        finally:
            if os.path.exists(demo):
                os.remove(demo)
            sh('git -C /repo checkout -- .')
            sh('git -C /repo clean -fdq -e .pytest_cache')
        meta['confirmed'] = rec
        json.dump(meta, open(meta_p, 'w'), indent=1)
        print(os.path.basename(d), 'caught' if rec.get('caught') else 'NOT CAUGHT', json.dumps(rec.get('check', rec))[:400], flush=True)
    assert sh('git -C /repo status --porcelain --untracked-files=no')[1].strip() == ''


if __name__ == '__main__':
    if sys.argv[1] == 'keep':
        keep(sys.argv[2:])
    elif sys.argv[1] == 'keep3':        # third round (ten properties): /tmp/seed3/out_<Cxx>/change{1,2} -> <Cxx>-5, <Cxx>-6
        keep(sys.argv[2:], root='/tmp/seed3', offset=4)
    elif sys.argv[1] == 'keep2':        # second round of sub-agents: /tmp/seed2/out_<Cxx>/change{1,2} -> <Cxx>-3, <Cxx>-4
        keep(sys.argv[2:], root='/tmp/seed2', offset=2)
    else:
        run(sys.argv[2:] or sorted(os.listdir(SEEDED)))
