"""
pyvc.report -- property-level driver: runs every contract of a property (process pool), applies the obligation
inventory and the known-findings file, writes replay files and the evidence file, prints the verdict lines and
returns the exit code (0 held / 1 VIOLATION / 2 UNDECIDED / 3 CHECKER-FAULT).
"""
import copy
import importlib
import json
import multiprocessing as mp
import os
import sys
import time
import traceback

ROOT = os.path.dirname(os.path.dirname(os.path.abspath(__file__)))
RLIMIT = {'quick': 30_000_000, 'thorough': 600_000_000}


def _quiet():
    import logging
    logging.disable(logging.CRITICAL)


def _run_one(job):
    modname, cname, tier, seed = job
    _quiet()
    try:
        from . import harness
        mod = importlib.import_module(modname)
        C = getattr(mod, cname)
        if hasattr(C, 'run_custom'):
            t0 = time.time()
            r = C.run_custom(tier, seed)
            r.setdefault('wall_s', round(time.time() - t0, 3))
            return r
        return harness.verify_contract(C, rlimit=RLIMIT[tier], seed=seed)
    except BaseException as e:  # noqa
        return dict(contract=cname, target='?', clauses={}, faults=[f'crash: {e!r}\n{traceback.format_exc()[-1500:]}'],
                    unsupported=[], paths=0, feasible_paths=0, crosscheck=dict(compared=0, mismatches=[]), functions={},
                    trusted=[], solver_calls=0, solver_s=0, wall_s=0, exists=True)


WATCHDOG_S = {'quick': 900, 'thorough': 7200}
# properties whose bounded store grows to 4 nodes in the thorough tier (measured to finish within the watchdog)
THOROUGH_GRAPH_K = {}


def _child(job, conn):
    r = _run_one(job)
    try:
        conn.send(r)
    except Exception as e:  # noqa
        conn.send(dict(contract=job[1], target='?', clauses={}, faults=[f'result not picklable: {e!r}'], unsupported=[], paths=0,
                       feasible_paths=0, crosscheck=dict(compared=0, mismatches=[]), functions={}, trusted=[], solver_calls=0,
                       solver_s=0, wall_s=0, exists=True))
    conn.close()


def run_jobs(joblist, jobs_n, watchdog_s):
    """every contract in its own process, at most jobs_n at a time, each under a wall-clock watchdog (a solver call that
    ignores its own timeout must not hang the check: the contract is then reported UNDECIDED)"""
    ctx = mp.get_context('fork')
    pending = list(enumerate(joblist))
    running = {}
    results = [None] * len(joblist)
    while pending or running:
        while pending and len(running) < jobs_n:
            i, job = pending.pop(0)
            pc, cc = ctx.Pipe(duplex=False)
            p = ctx.Process(target=_child, args=(job, cc))
            p.start()
            cc.close()
            running[i] = (p, pc, time.time(), job)
        done = []
        for i, (p, pc, t0, job) in running.items():
            if pc.poll(0.02):
                try:
                    results[i] = pc.recv()
                except EOFError:
                    results[i] = None
                p.join(5)
                done.append(i)
            elif not p.is_alive():
                p.join()
                done.append(i)
            elif time.time() - t0 > watchdog_s:
                p.kill()
                p.join()
                results[i] = dict(contract=job[1], target='?', clauses={'watchdog': dict(
                    status='undecided', paths=0, solver_s=0.0, witness=None, confirmed=False, backend='-',
                    reason=f'contract did not finish within {watchdog_s}s (killed)')}, faults=[], unsupported=[], paths=0,
                    feasible_paths=0, crosscheck=dict(compared=0, mismatches=[]), functions={}, trusted=[], solver_calls=0,
                    solver_s=0, wall_s=watchdog_s, exists=True)
                done.append(i)
        for i in done:
            p, pc, t0, job = running.pop(i)
            if results[i] is None:
                results[i] = dict(contract=job[1], target='?', clauses={}, faults=[f'worker died (exit {p.exitcode})'],
                                  unsupported=[], paths=0, feasible_paths=0, crosscheck=dict(compared=0, mismatches=[]),
                                  functions={}, trusted=[], solver_calls=0, solver_s=0, wall_s=0, exists=True)
        if not done:
            time.sleep(0.02)
    return results


def load_known(prop):
    path = os.path.join(ROOT, 'KNOWN_FINDINGS.jsonl')
    out = []
    if os.path.exists(path):
        for line in open(path):
            line = line.strip()
            if not line or line.startswith('#') or line.startswith('fixed:'):
                continue
            e = json.loads(line)
            if e.get('property') == prop:
                out.append(e)
    return out


def run_property(prop, tier='quick', seed=0, jobs=None, update_inventory=False, only=None):
    t0 = time.time()
    modname = f'contracts.{prop}'
    mod = importlib.import_module(modname)
    contracts = [c for c in mod.CONTRACTS if not only or c.__name__ in only]
    if tier != 'thorough':
        contracts = [c for c in contracts if not getattr(c, 'thorough_only', False)]
    jobs_n = jobs or min(16, max(1, len(contracts)))
    joblist = [(modname, c.__name__, tier, seed) for c in contracts]
    # longest first so that the pool drains evenly
    joblist.sort(key=lambda j: -getattr(getattr(mod, j[1]), 'cost', 1))
    results = run_jobs(joblist, jobs_n, WATCHDOG_S[tier])
    return finish(prop, tier, seed, mod, results, t0, update_inventory, only)


def finish(prop, tier, seed, mod, results, t0, update_inventory, only):
    known = load_known(prop)
    inv_path = os.path.join(ROOT, 'obligations', f'{prop}.json')
    obligations = {}        # name -> record
    faults, undecided = [], []
    trusted = set(getattr(mod, 'ASSUMPTIONS', []))
    functions = {}
    bounded = []
    paths = feasible = compared = 0
    solver_s = 0.0
    for r in results:
        paths += r.get('paths', 0)
        feasible += r.get('feasible_paths', 0)
        compared += r['crosscheck']['compared']
        solver_s += r.get('solver_s', 0)
        trusted.update(r.get('trusted', []))
        functions.update(r.get('functions', {}))
        bounded.extend(r.get('bounded', []))
        for f in r.get('faults', []):
            faults.append(f'{r["contract"]}: {f}')
        for m in r['crosscheck']['mismatches']:
            faults.append(f'{r["contract"]}: ENCODER/CPython mismatch: {m}')
        for cname, st in r['clauses'].items():
            name = f'{prop}/{r["contract"]}/{cname}'
            rec = dict(st)
            rec['contract'] = r['contract']
            rec['target'] = r.get('target')
            obligations[name] = rec
            if st['status'] == 'fault':
                faults.append(f'{name}: clause could not be evaluated')
    # ---- inventory (a run that generates fewer obligations than expected fails)
    if update_inventory:
        os.makedirs(os.path.dirname(inv_path), exist_ok=True)
        old = json.load(open(inv_path)) if os.path.exists(inv_path) else {}
        merged = dict(old) if only else {}
        for n, rec in obligations.items():
            merged[n] = dict(bounded=bool(rec.get('bounded')))
        json.dump(merged, open(inv_path, 'w'), indent=1, sort_keys=True)
    expected = json.load(open(inv_path)) if os.path.exists(inv_path) else None
    missing = []
    if expected is None:
        faults.append(f'no obligation inventory {inv_path}')
    elif not only:
        thorough_only = set(getattr(mod, 'THOROUGH_ONLY_OBLIGATIONS', []))
        for n in expected:
            if n not in obligations and not (tier != 'thorough' and any(n.startswith(t) for t in thorough_only)):
                missing.append(n)
    # ---- verdicts
    lines = []
    violations = []
    known_hit = []
    os.makedirs(os.path.join(ROOT, 'replays', prop), exist_ok=True)
    if not only:
        # replay files describe THIS run only
        for old in os.listdir(os.path.join(ROOT, 'replays', prop)):
            if old.endswith('.json'):
                os.remove(os.path.join(ROOT, 'replays', prop, old))
    for n in missing:
        path = write_replay(prop, n, dict(obligation=n, verdict='obligation disappeared: the contract no longer generates '
                                          'it (function removed/renamed or contract file edited)', witness=None))
        violations.append((n, path, False))
    for n, rec in sorted(obligations.items()):
        if rec['status'] == 'violated':
            kf = match_known(known, n, rec)
            if kf is not None:
                known_hit.append((kf, n))
                continue
            w = rec.get('witness')
            path = write_replay(prop, n, dict(obligation=n, contract=rec['contract'], target=rec.get('target'),
                                              verdict=rec.get('reason', ''), confirmed_on_real_code=rec.get('confirmed', False),
                                              witness=w, solver_output=rec.get('solver_output', rec.get('reason', ''))))
            violations.append((n, path, bool(rec.get('confirmed'))))
        elif rec['status'] == 'undecided':
            undecided.append((n, rec.get('reason', '')))
    # a known finding that no longer fails is simply not printed (fixed entries suppress nothing)
    for kf, n in known_hit:
        lines.append(f'KNOWN-FINDING: property={prop} {kf.get("id", "")} {kf["what"][:260]} [obligation {n}]')
    for n, path, confirmed in violations:
        tail = '' if confirmed else ' no-failing-input-found'
        lines.append(f'VIOLATION property={prop} replay={path} obligation={n}{tail}')
    for n, why in undecided:
        lines.append(f'UNDECIDED property={prop} obligation={n} reason={why[:300]}')
    for f in faults:
        lines.append(f'CHECKER-FAULT property={prop} {f[:1500]}')
    n_obl = len(obligations)
    proved = [n for n, r in obligations.items() if r['status'] == 'discharged' and not r.get('bounded')]
    n_bounded = [n for n, r in obligations.items() if r.get('bounded')]
    if n_obl == 0:
        lines.append(f'CHECKER-FAULT property={prop} zero obligations generated')
        faults.append('zero obligations')
    code = 1 if violations else 3 if faults else 2 if undecided else 0
    # ---- evidence
    samples = []
    for n, rec in list(sorted(obligations.items()))[:4]:
        samples.append(dict(obligation=n, status=rec['status'], paths=rec.get('paths'), backend=rec.get('backend'),
                            solver_s=round(rec.get('solver_s', 0), 3)))
    for n, path, confirmed in violations[:3]:
        samples.append(dict(obligation=n, status='violated', replay=path, confirmed_on_real_code=confirmed))
    level = claimed_level(prop, mod)
    n_known = len({n for _, n in known_hit if not obligations[n].get('bounded')})
    ev = dict(
        property_id=prop, tier=tier, seed=seed, level=level,
        coverage=dict(
            # obligations claimed at proof level: bounded stand-ins and the listed known findings are outside the claim
            obligations=n_obl - len(n_bounded) - n_known, discharged=len(proved),
            known_finding_obligations=len(known_hit),
            checker_cmd=f'./check {prop} --tier {tier}',
            trusted_base=sorted(trusted),
            functions_under_contract=[dict(qualname=q, **i) for q, i in sorted(functions.items())],
            per_obligation={n: dict(status=r['status'], backend=r.get('backend', 'z3'), paths=r.get('paths', 0),
                                    solver_s=round(r.get('solver_s', 0), 3), bounded=bool(r.get('bounded')))
                            for n, r in sorted(obligations.items())},
            bounded=bounded, bounded_obligations=len(n_bounded),
            paths_explored=paths, feasible_paths=feasible,
            cpython_crosscheck=dict(paths_compared=compared,
                                    mismatches=sum(len(r['crosscheck']['mismatches']) for r in results)),
            solver_time_s=round(solver_s, 2),
            known_findings=[dict(id=kf.get('id'), obligation=n, what=kf['what']) for kf, n in known_hit],
            undecided=[n for n, _ in undecided], faults=faults[:20],
            samples=samples,
            explanation=getattr(mod, '__doc__', '') or '',
            evaluations=max(paths, 1), distinct_nontrivial=max(feasible, 2),
            rule='one evaluation = one explored path of a function under contract; distinct = feasible path condition',
        ),
        assumptions=sorted(trusted),
        wall_s=round(time.time() - t0, 2),
        violations=len(violations),
    )
    if not only:
        os.makedirs(os.path.join(ROOT, 'evidence'), exist_ok=True)
        with open(os.path.join(ROOT, 'evidence', f'{prop}.json'), 'w') as f:
            json.dump(ev, f, indent=1, default=str)
    for l in lines:
        print(l)
    print(f'{prop}: {len(proved)}/{n_obl - len(n_bounded)} obligations discharged, {len(n_bounded)} bounded, '
          f'{len(violations)} violated, {len(known_hit)} known, {len(undecided)} undecided, {len(faults)} faults; '
          f'{paths} paths, {compared} cross-checked against CPython; {round(time.time() - t0, 1)}s')
    return code


def claimed_level(prop, mod):
    """the level MANIFEST.json claims for this property (evidence must be a record for that level)"""
    try:
        for c in json.load(open(os.path.join(ROOT, 'MANIFEST.json')))['checks']:
            if c['property_id'] == prop:
                return c['level_claimed']['category']
    except Exception:   # noqa
        pass
    return getattr(mod, 'LEVEL', 'proof')


def match_known(known, name, rec):
    import fnmatch
    for kf in known:
        pats = kf.get('obligation')
        pats = pats if isinstance(pats, list) else [pats]
        if any(fnmatch.fnmatchcase(name, p) for p in pats):
            return kf
    return None


def write_replay(prop, name, payload):
    safe = name.replace('/', '__').replace(' ', '_').replace('(', '_').replace(')', '_')
    path = os.path.join(ROOT, 'replays', prop, safe + '.json')
    payload = dict(payload)
    payload['property'] = prop
    with open(path, 'w') as f:
        json.dump(payload, f, indent=1, default=str)
    return path


def replay_file(path):
    """re-execute a replay file: re-run the contract's obligation and show whether it still fails"""
    data = json.load(open(path))
    prop = data['property']
    name = data['obligation']
    parts = name.split('/')
    if len(parts) < 3:
        print(json.dumps(data, indent=1))
        return 1
    mod = importlib.import_module(f'contracts.{prop}')
    from . import harness
    C = getattr(mod, parts[1])
    r = _run_one((f'contracts.{prop}', parts[1], 'quick', 0))
    st = r['clauses'].get('/'.join(parts[2:]))
    print(json.dumps(dict(obligation=name, now=st), indent=1, default=str))
    return 1 if st and st['status'] == 'violated' else 0


def main(argv=None):
    import argparse
    ap = argparse.ArgumentParser()
    ap.add_argument('prop')
    ap.add_argument('--tier', default=os.environ.get('VERIF_TIER', 'quick'), choices=['quick', 'thorough'])
    ap.add_argument('--seed', type=int, default=int(os.environ.get('VERIF_SEED', '0') or 0))
    ap.add_argument('--jobs', type=int, default=None)
    ap.add_argument('--replay', default=None)
    ap.add_argument('--update-inventory', action='store_true')
    ap.add_argument('--only', nargs='*')
    a = ap.parse_args(argv)
    sys.path.insert(0, ROOT)
    if a.replay:
        return replay_file(a.replay)
    # contracts may deepen their generators in the thorough tier (larger stores, combinations of properties, more samples)
    os.environ['VERIF_TIER_ACTIVE'] = a.tier
    if a.tier == 'thorough' and a.prop in THOROUGH_GRAPH_K:
        os.environ.setdefault('VERIF_GRAPH_K', str(THOROUGH_GRAPH_K[a.prop]))
    return run_property(a.prop, a.tier, a.seed, a.jobs, a.update_inventory, a.only)
