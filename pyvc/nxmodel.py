"""
pyvc.nxmodel -- L0: assumed contract (model) of the networkx / networkx_query API the verified code uses, on graphs of
CONCRETE SHAPE (which nodes / edges exist is known on a path; every attribute value may be symbolic).  Contracts enumerate the
shapes up to a bound, so everything proved over this model is a *bounded* result (all graphs up to k nodes, all values).
Structure-only algorithms (shortest_path, all_simple_paths, cycle_basis, convert_node_labels_to_integers order ...) are
computed by the real networkx on a skeleton of the same shape, i.e. the library is its own model there.
The model is compared with the real library on random operation sequences by `validate()` on every run of a check using it.
"""
import collections

import networkx as nx
import networkx_query as nxq
import z3

from .values import (Sym, PObj, PList, PDict, PSet, DictView, Unsupported, is_sym, mk, sym_and, sym_or, sym_not, BuiltinMethod)
from . import models
from .models import model


def _interp():
    from . import interp
    return interp


def _raise(I, cls, *args):
    raise _interp().PyRaise(PObj(cls, {'args': tuple(args)}))


def _havoc_or_unsupported(I, label, msg):
    """a modelled library function applied to an unknown value: unknown result (havoc mode) or unsupported"""
    if I.ctx.shared.havoc_unmodelled:
        return I.any_op(label)
    raise Unsupported(msg)


def _any_arg(args, kw):
    from .values import AnyVal
    return any(isinstance(a, AnyVal) for a in list(args) + list(kw.values()))


def ekey(a, b):
    """canonical key of the undirected edge {a, b}"""
    return (a, b) if (type(a).__name__, a) <= (type(b).__name__, b) else (b, a)


class NXGraph:
    """nx.Graph: nodes (key -> attribute PDict, insertion ordered), undirected edges (canonical pair -> attribute PDict)"""

    def __init__(self):
        self.node = PDict()
        self.edge = PDict()
        self.adj_order = {}          # node -> list of neighbours in insertion order (iteration order of neighbors())
        self.version = 0

    def __repr__(self):
        return f'NXGraph(nodes={list(self.node.e)}, edges={list(self.edge.e)})'

    # -------- helpers
    def has_node(self, n):
        return n in self.node.e

    def nbrs(self, n):
        return list(self.adj_order.get(n, []))

    def _touch(self, I):
        self.version += 1
        I.ctx.mutations += 1

    def _add_node(self, I, n, attrs):
        if is_sym(n):
            raise Unsupported('symbolic node key')
        if n not in self.node.e:
            self.node.e[n] = [True, PDict()]
            self.node.version += 1
            self.adj_order[n] = []
            self._touch(I)
        d = self.node.e[n][1]
        for k, v in attrs:
            I.dict_set(d, k, v)

    def _add_edge(self, I, a, b, attrs):
        self._add_node(I, a, [])
        self._add_node(I, b, [])
        k = ekey(a, b)
        if k not in self.edge.e:
            self.edge.e[k] = [True, PDict()]
            self.edge.version += 1
            self.adj_order[a].append(b)
            if a != b:
                self.adj_order[b].append(a)
            self._touch(I)
        d = self.edge.e[k][1]
        for kk, v in attrs:
            I.dict_set(d, kk, v)

    def _remove_edge(self, I, a, b):
        k = ekey(a, b)
        del self.edge.e[k]
        self.edge.version += 1
        self.adj_order[a].remove(b)
        if a != b:
            self.adj_order[b].remove(a)
        self._touch(I)

    def _remove_node(self, I, n):
        for m in list(self.adj_order[n]):
            self._remove_edge(I, n, m)
        del self.node.e[n]
        self.node.version += 1
        del self.adj_order[n]
        self._touch(I)

    def skeleton(self):
        """real networkx graph of the same shape (same insertion orders)"""
        g = nx.Graph()
        for n in self.node.e:
            g.add_node(n)
        for (a, b) in self.edge.e:
            g.add_edge(a, b)
        return g

    def copy_graph(self, I, keymap=None):
        g = NXGraph()
        km = keymap or (lambda x: x)
        for n, (_, d) in self.node.e.items():
            g._add_node(I, km(n), [(k, v) for k, (gg, v) in d.e.items()])
        for (a, b), (_, d) in self.edge.e.items():
            g._add_edge(I, km(a), km(b), [(k, v) for k, (gg, v) in d.e.items()])
        return g

    # -------- engine protocol
    def pyvc_getattr(self, I, name):
        if name == 'nodes':
            return NodeView(self)
        if name == 'edges':
            return EdgeView(self)
        if name in ('adj', '_adj'):
            return AdjView(self)
        if name in ('add_node', 'add_nodes_from', 'add_edge', 'add_edges_from', 'remove_node', 'remove_nodes_from',
                    'remove_edge', 'clear', 'copy', 'subgraph', 'neighbors', 'has_node', 'has_edge', 'number_of_nodes',
                    'is_directed', 'is_multigraph', '__contains__'):
            return BuiltinMethod(self, name)
        raise Unsupported(f'networkx Graph.{name} is not modelled')

    def pyvc_method(self, I, name, args, kw):
        if name == 'add_node':
            self._add_node(I, args[0], list(kw.items()))
            return None
        if name == 'add_nodes_from':
            for item in list(I.iterate(args[0])):
                if isinstance(item, tuple) and len(item) == 2 and isinstance(item[1], PDict):
                    n, dd = item
                    self._add_node(I, n, [(k, dd.e[k][1]) for k in I.dict_keys_now(dd)] + list(kw.items()))
                else:
                    self._add_node(I, item, list(kw.items()))
            return None
        if name == 'add_edge':
            self._add_edge(I, args[0], args[1], list(kw.items()))
            return None
        if name == 'add_edges_from':
            for item in list(I.iterate(args[0])):
                item = tuple(I.iterate(item)) if not isinstance(item, tuple) else item
                if len(item) == 3:
                    a, b, dd = item
                    self._add_edge(I, a, b, [(k, dd.e[k][1]) for k in I.dict_keys_now(dd)] + list(kw.items()))
                elif len(item) == 2:
                    self._add_edge(I, item[0], item[1], list(kw.items()))
                else:
                    _raise(I, nx.NetworkXError, 'Edge tuple must be a 2-tuple or 3-tuple')
            return None
        if name == 'remove_node':
            if is_sym(args[0]):
                raise Unsupported('symbolic node key')
            if args[0] not in self.node.e:
                _raise(I, nx.NetworkXError, f'The node {args[0]} is not in the graph')
            self._remove_node(I, args[0])
            return None
        if name == 'remove_nodes_from':
            for n in list(I.iterate(args[0])):
                if is_sym(n):
                    raise Unsupported('symbolic node key')
                if n in self.node.e:
                    self._remove_node(I, n)
            return None
        if name == 'remove_edge':
            a, b = args
            if ekey(a, b) not in self.edge.e:
                _raise(I, nx.NetworkXError, f'The edge {a}-{b} is not in the graph')
            self._remove_edge(I, a, b)
            return None
        if name == 'clear':
            self.node.e.clear()
            self.edge.e.clear()
            self.node.version += 1
            self.edge.version += 1
            self.adj_order.clear()
            self._touch(I)
            return None
        if name == 'copy':
            return self.copy_graph(I)
        if name == 'subgraph':
            keep = list(I.iterate(args[0]))
            g = NXGraph()
            for n in self.node.e:
                if n in keep:
                    g.node.e[n] = [True, self.node.e[n][1]]       # a view: attribute dicts are shared
                    g.adj_order[n] = []
            for (a, b), ent in self.edge.e.items():
                if a in keep and b in keep:
                    g.edge.e[(a, b)] = [True, ent[1]]
                    g.adj_order[a].append(b)
                    if a != b:
                        g.adj_order[b].append(a)
            return g
        if name == 'neighbors':
            n = args[0]
            if n not in self.node.e:
                _raise(I, nx.NetworkXError, f'The node {n} is not in the graph.')
            return GraphIter(self, list(self.adj_order[n]), 'neighbors')
        if name in ('has_node', '__contains__'):
            return args[0] in self.node.e
        if name == 'has_edge':
            return ekey(args[0], args[1]) in self.edge.e
        if name == 'number_of_nodes':
            return len(self.node.e)
        if name in ('is_directed', 'is_multigraph'):
            return False
        raise Unsupported(f'networkx Graph.{name}')

    def __pyvc_contains__(self, I, x):
        return x in self.node.e

    def __pyvc_len__(self, I):
        return len(self.node.e)

    def __pyvc_iter__(self, I):
        return iter(GraphIter(self, list(self.node.e), 'nodes').__pyvc_iter__(I))


class AdjView:
    """G.adj: node -> {neighbour: edge attribute dict} (the inner dict lists the neighbours in adjacency order; the edge
    attribute dicts are the live ones)"""
    def __init__(self, g):
        self.g = g

    def __pyvc_getitem__(self, I, n):
        if is_sym(n):
            raise Unsupported('G.adj[<symbolic key>]')
        if n not in self.g.node.e:
            _raise(I, KeyError, n)
        d = PDict()
        for m in self.g.adj_order[n]:
            d.e[m] = [True, self.g.edge.e[ekey(n, m)][1]]
        return d

    def __pyvc_iter__(self, I):
        return iter(list(self.g.node.e))

    def __pyvc_len__(self, I):
        return len(self.g.node.e)

    def __pyvc_contains__(self, I, x):
        return x in self.g.node.e


class GraphIter:
    """live iteration over a snapshot of keys: a structural change of the graph while it is being iterated raises
    RuntimeError in CPython ('dictionary changed size during iteration')"""

    def __init__(self, g, items, what):
        self.g = g
        self.items = items
        self.what = what

    def __pyvc_iter__(self, I):
        ver = self.g.version
        for x in self.items:
            if self.g.version != ver:
                _raise(I, RuntimeError, 'dictionary changed size during iteration')
            yield x
        if self.g.version != ver and self.items:
            _raise(I, RuntimeError, 'dictionary changed size during iteration')

    def __pyvc_len__(self, I):
        return len(self.items)


class NodeView:
    def __init__(self, g, data=False):
        self.g = g
        self.data = data

    def pyvc_getattr(self, I, name):
        if name in ('items', 'keys', 'values', 'data', '__call__', 'get'):
            return BuiltinMethod(self, name)
        raise Unsupported(f'NodeView.{name}')

    def pyvc_call(self, I, args, kw):
        data = kw.get('data', args[0] if args else False)
        return NodeView(self.g, bool(data)) if data in (True, False) else _unsupported('nodes(data=<key>)')

    def pyvc_method(self, I, name, args, kw):
        if name == '__call__':
            return self.pyvc_call(I, args, kw)
        if name == 'items':
            return NodeView(self.g, True)
        if name == 'keys':
            return NodeView(self.g, False)
        if name == 'data':
            return NodeView(self.g, True)
        if name == 'get':
            n = args[0]
            return self.g.node.e[n][1] if n in self.g.node.e else (args[1] if len(args) > 1 else None)
        raise Unsupported(f'NodeView.{name}')

    def __pyvc_getitem__(self, I, n):
        if is_sym(n):
            raise Unsupported('symbolic node key')
        if n not in self.g.node.e:
            _raise(I, KeyError, n)
        return self.g.node.e[n][1]

    def __pyvc_iter__(self, I):
        keys = list(self.g.node.e)
        items = [(n, self.g.node.e[n][1]) for n in keys] if self.data else keys
        return GraphIter(self.g, items, 'nodes').__pyvc_iter__(I)

    def __pyvc_len__(self, I):
        return len(self.g.node.e)

    def __pyvc_contains__(self, I, x):
        return x in self.g.node.e


def _unsupported(msg):
    raise Unsupported(msg)


class EdgeView:
    def __init__(self, g, data=False):
        self.g = g
        self.data = data

    def pyvc_getattr(self, I, name):
        if name in ('data', '__call__'):
            return BuiltinMethod(self, name)
        raise Unsupported(f'EdgeView.{name}')

    def pyvc_call(self, I, args, kw):
        data = kw.get('data', args[0] if args else False)
        if data not in (True, False):
            raise Unsupported('edges(data=<key>)')
        return EdgeView(self.g, bool(data))

    def pyvc_method(self, I, name, args, kw):
        if name == '__call__':
            return self.pyvc_call(I, args, kw)
        if name == 'data':
            return EdgeView(self.g, True)
        raise Unsupported(f'EdgeView.{name}')

    def __pyvc_getitem__(self, I, e):
        e = tuple(I.iterate(e)) if not isinstance(e, tuple) else e
        if len(e) != 2:
            raise Unsupported('edge key')
        k = ekey(e[0], e[1])
        if k not in self.g.edge.e:
            _raise(I, KeyError, e)
        return self.g.edge.e[k][1]

    def _ordered(self):
        """networkx reports each edge once, from the endpoint that comes first in node order"""
        seen, out = set(), []
        for n in self.g.node.e:
            for m in self.g.adj_order.get(n, []):
                k = ekey(n, m)
                if k in seen:
                    continue
                seen.add(k)
                out.append((n, m, self.g.edge.e[k][1]))
        return out

    def __pyvc_iter__(self, I):
        items = [(a, b, d) if self.data else (a, b) for a, b, d in self._ordered()]
        return GraphIter(self.g, items, 'edges').__pyvc_iter__(I)

    def __pyvc_len__(self, I):
        return len(self.g.edge.e)


class PDefaultDict(PDict):
    """collections.defaultdict"""

    def __init__(self, factory):
        super().__init__()
        self.factory = factory


# ------------------------------------------------------------------------------------------- module-level functions
@model(nx.Graph)
def m_graph(I, args, kw):
    if _any_arg(args, kw):
        return _havoc_or_unsupported(I, 'networkx.Graph()', 'networkx.Graph() on an unknown value')
    g = NXGraph()
    if args and args[0] is not None:
        src = args[0]
        if isinstance(src, NXGraph):
            return src.copy_graph(I)
        raise Unsupported('nx.Graph(<data>)')
    return g


@model(collections.defaultdict)
def m_defaultdict(I, args, kw):
    return PDefaultDict(args[0] if args else None)


@model(nx.convert_node_labels_to_integers)
def m_convert(I, args, kw):
    if _any_arg(args, kw):
        return _havoc_or_unsupported(I, 'networkx.convert_node_labels_to_integers()', 'networkx.convert_node_labels_to_integers() on an unknown value')
    G = args[0]
    first = kw.get('first_label', args[1] if len(args) > 1 else 0)
    if not isinstance(G, NXGraph):
        raise Unsupported('convert_node_labels_to_integers of a non-graph')
    if is_sym(first):
        raise Unsupported('symbolic first_label (the contract must fix the id counter per path)')
    mapping = {n: first + i for i, n in enumerate(G.node.e)}
    return G.copy_graph(I, lambda n: mapping[n])


@model(nx.relabel_nodes)
def m_relabel(I, args, kw):
    if _any_arg(args, kw):
        return _havoc_or_unsupported(I, 'networkx.relabel_nodes()', 'networkx.relabel_nodes() on an unknown value')
    G, mapping = args[0], args[1]
    copy = kw.get('copy', args[2] if len(args) > 2 else True)
    if not isinstance(mapping, PDict):
        raise Unsupported('relabel_nodes with a function')
    mp = {}
    for k in I.dict_keys_now(mapping):
        v = mapping.e[k][1]
        if is_sym(v):
            raise Unsupported('relabel to symbolic node keys (node keys must be concrete in the bounded graph model)')
        mp[k] = v
    tgt = [mp.get(n, n) for n in G.node.e]
    if len(set(tgt)) != len(tgt):
        raise Unsupported('relabel_nodes merging nodes')
    H = G.copy_graph(I, lambda n: mp.get(n, n))
    if copy:
        return H
    G.node, G.edge, G.adj_order = H.node, H.edge, H.adj_order
    G._touch(I)
    return G


@model(nx.to_dict_of_dicts)
def m_to_dod(I, args, kw):
    if _any_arg(args, kw):
        return _havoc_or_unsupported(I, 'networkx.to_dict_of_dicts()', 'networkx.to_dict_of_dicts() on an unknown value')
    G = args[0]
    nodelist = kw.get('nodelist', args[1] if len(args) > 1 else None)
    nl = list(G.node.e) if nodelist is None else list(I.iterate(nodelist))
    dod = PDict()
    for u in nl:
        if u not in G.node.e:
            _raise(I, nx.NetworkXError, f'Node {u} not in graph')
        inner = PDict()
        for v in G.adj_order[u]:
            if v in nl:
                inner.e[v] = [True, G.edge.e[ekey(u, v)][1]]
        dod.e[u] = [True, inner]
    return dod


@model(nx.from_dict_of_dicts)
def m_from_dod(I, args, kw):
    if _any_arg(args, kw):
        return _havoc_or_unsupported(I, 'networkx.from_dict_of_dicts()', 'networkx.from_dict_of_dicts() on an unknown value')
    d = args[0]
    if kw or len(args) > 1:
        raise Unsupported('from_dict_of_dicts options')
    G = NXGraph()
    for u in d.e:
        G._add_node(I, u, [])
    seen = set()
    for u, (_, inner) in d.e.items():
        for v, (_, data) in inner.e.items():
            k = ekey(u, v)
            if k in seen:
                continue
            seen.add(k)
            G._add_edge(I, u, v, [(kk, data.e[kk][1]) for kk in I.dict_keys_now(data)])
    return G


@model(nx.shortest_path)
def m_shortest_path(I, args, kw):
    if _any_arg(args, kw):
        return _havoc_or_unsupported(I, 'networkx.shortest_path()', 'networkx.shortest_path() on an unknown value')
    G = args[0]
    src = kw.get('source', args[1] if len(args) > 1 else None)
    tgt = kw.get('target', args[2] if len(args) > 2 else None)
    if src is None or tgt is None or set(kw) - {'source', 'target'}:
        raise Unsupported('shortest_path variants')
    I.ctx.trust('networkx path algorithms (shortest_path, all_simple_paths, cycle_basis) computed by the real library on a '
                'skeleton of the same concrete shape')
    try:
        return PList(nx.shortest_path(G.skeleton(), source=src, target=tgt))
    except nx.NetworkXNoPath as e:
        _raise(I, nx.NetworkXNoPath, str(e))
    except nx.NodeNotFound as e:
        _raise(I, nx.NodeNotFound, str(e))


@model(nx.all_simple_paths)
def m_all_simple_paths(I, args, kw):
    if _any_arg(args, kw):
        return _havoc_or_unsupported(I, 'networkx.all_simple_paths()', 'networkx.all_simple_paths() on an unknown value')
    G, src, tgt = args[0], args[1], args[2]
    cutoff = kw.get('cutoff', args[3] if len(args) > 3 else None)
    if is_sym(cutoff):
        raise Unsupported('symbolic cutoff')
    try:
        return PList([PList(p) for p in nx.all_simple_paths(G.skeleton(), src, tgt, cutoff=cutoff)])
    except nx.NodeNotFound as e:
        _raise(I, nx.NodeNotFound, str(e))


@model(nx.cycle_basis)
def m_cycle_basis(I, args, kw):
    if _any_arg(args, kw):
        return _havoc_or_unsupported(I, 'networkx.cycle_basis()', 'networkx.cycle_basis() on an unknown value')
    return PList([PList(c) for c in nx.cycle_basis(args[0].skeleton())])


@model(nx.contracted_nodes)
def m_contracted(I, args, kw):
    if _any_arg(args, kw):
        return _havoc_or_unsupported(I, 'networkx.contracted_nodes()', 'networkx.contracted_nodes() on an unknown value')
    G, u, v = args[0], args[1], args[2]
    if kw.get('self_loops', True) is not True or kw.get('copy', True) is not False:
        raise Unsupported('contracted_nodes options')
    I.ctx.trust('nx.contracted_nodes(copy=False): edges of v are re-attached to u (an edge u-v becomes a self loop, an '
                'already existing edge u-w is kept and records the other one under "contraction"), v is removed, '
                'u gets a "contraction" attribute')
    if u not in G.node.e or v not in G.node.e:
        _raise(I, nx.NetworkXError, 'node not in graph')
    vdata = G.node.e[v][1]
    moved = [(w, G.edge.e[ekey(v, w)][1]) for w in list(G.adj_order[v])]
    G._remove_node(I, v)
    for w, d in moved:
        w2 = u if w == v else w
        k = ekey(u, w2)
        if k in G.edge.e:
            ed = G.edge.e[k][1]
            if 'contraction' not in ed.e:
                I.dict_set(ed, 'contraction', PDict())
            I.dict_set(ed.e['contraction'][1], (v, w), d)
        else:
            G._add_edge(I, u, w2, [(kk, d.e[kk][1]) for kk in I.dict_keys_now(d)])
    ud = G.node.e[u][1]
    if 'contraction' not in ud.e:
        I.dict_set(ud, 'contraction', PDict())
    I.dict_set(ud.e['contraction'][1], v, vdata)
    return G


@model(nx.set_node_attributes)
def m_set_node_attributes(I, args, kw):
    if _any_arg(args, kw):
        return _havoc_or_unsupported(I, 'networkx.set_node_attributes()', 'set_node_attributes on an unknown value')
    G, vals = args[0], args[1]
    name = kw.get('name', args[2] if len(args) > 2 else None)
    if not isinstance(G, NXGraph):
        raise Unsupported('set_node_attributes on a non-graph')
    if name is not None and not isinstance(vals, PDict):
        for n in G.node.e:
            I.dict_set(G.node.e[n][1], name, vals)
        return None
    if name is not None and isinstance(vals, PDict):
        for n in I.dict_keys_now(vals):
            if n in G.node.e:
                I.dict_set(G.node.e[n][1], name, vals.e[n][1])
        return None
    raise Unsupported('set_node_attributes with a dict of dicts')


@model(nx.shortest_simple_paths)
def m_shortest_simple_paths(I, args, kw):
    if _any_arg(args, kw):
        return _havoc_or_unsupported(I, 'networkx.shortest_simple_paths()', 'shortest_simple_paths on an unknown value')
    G, src, tgt = args[0], args[1], args[2]
    if kw:
        raise Unsupported('shortest_simple_paths options')
    if src not in G.node.e or tgt not in G.node.e:
        _raise(I, nx.NodeNotFound, 'node not in graph')
    sk = G.skeleton()

    class Lazy:
        """a generator: NetworkXNoPath is raised on the first next(), not at creation"""
        def __pyvc_iter__(self, I2):
            try:
                paths = list(nx.shortest_simple_paths(sk, src, tgt))
            except nx.NetworkXNoPath as e:
                _raise(I2, nx.NetworkXNoPath, str(e))
            for p in paths:
                yield PList(p)
    return Lazy()


@model(nx.has_path)
def m_has_path(I, args, kw):
    if _any_arg(args, kw):
        return _havoc_or_unsupported(I, 'networkx.has_path()', 'has_path on an unknown value')
    G, src, tgt = args[0], args[1], args[2]
    try:
        return nx.has_path(G.skeleton(), src, tgt)
    except nx.NodeNotFound as e:
        _raise(I, nx.NodeNotFound, str(e))


# ------------------------------------------------------------------------------------------- networkx_query
def eval_query(I, attrs, q):
    """networkx_query semantics (read from the installed source): {'eq': [key, value]} holds iff key is present in the
    node's attribute dict AND its value equals `value`; 'and' / 'or' / 'not' combine."""
    if not isinstance(q, PDict):
        raise Unsupported('query is not a dict')
    (op, (_, arg)), = q.e.items()
    if op == 'and':
        return sym_and(*[eval_query(I, attrs, x) for x in I.iterate(arg)])
    if op == 'or':
        return sym_or(*[eval_query(I, attrs, x) for x in I.iterate(arg)])
    if op == 'not':
        return sym_not(eval_query(I, attrs, arg))
    if op in ('eq', 'neq'):
        key, val = list(I.iterate(arg))
        if is_sym(key):
            raise Unsupported('query on a symbolic attribute name')
        if isinstance(key, tuple):
            raise Unsupported('query on a nested attribute path')
        kk = I._key(key, attrs)
        if kk not in attrs.e:
            return False if op == 'eq' else False
        g, v = attrs.e[kk]
        if g is not True:
            raise Unsupported('query on an attribute with symbolic presence')
        e = I.py_eq(v, val)
        return e if op == 'eq' else sym_not(e)
    raise Unsupported(f'networkx_query operator {op}')


class LazySearch:
    """networkx_query.search_nodes returns a lazy iterator over the live node view"""

    def __init__(self, g, q):
        self.g = g
        self.q = q

    def __pyvc_iter__(self, I):
        ver = self.g.version
        for n in list(self.g.node.e):
            if self.g.version != ver:
                _raise(I, RuntimeError, 'dictionary changed size during iteration')
            if I.ctx.branch(eval_query(I, self.g.node.e[n][1], self.q)):
                yield n


@model(nxq.search_nodes)
def m_search_nodes(I, args, kw):
    if _any_arg(args, kw):
        return _havoc_or_unsupported(I, 'networkx_query.search_nodes()', 'networkx_query.search_nodes() on an unknown value')
    G, q = args[0], args[1]
    if not isinstance(G, NXGraph):
        raise Unsupported('search_nodes on a non-graph value')
    I.ctx.trust("networkx_query.search_nodes: {'eq': [k, v]} = attribute k present and equal to v; lazy over the live node view")
    return LazySearch(G, q)


# ------------------------------------------------------------------------------------------- reification (replay / cross-check)
def to_real(g, R):
    """NXGraph -> real nx.Graph (R: Reifier)"""
    G = nx.Graph()
    for n, (_, d) in g.node.e.items():
        G.add_node(n, **{k: R(v) for k, (gg, v) in d.e.items()})
    for (a, b), (_, d) in g.edge.e.items():
        G.add_edge(a, b, **{k: R(v) for k, (gg, v) in d.e.items()})
    return G
