"""
pyvc.spec -- the polymorphic vocabulary contracts are written in.

Every function works on BOTH interpretations of a contract:
  * symbolic  (arguments are Sym / PObj / PList / PDict ... ; result is a z3-backed Sym bool or a python bool)
  * concrete  (arguments are real python objects; result is a python bool)      -- used for replaying a
    counter-model on the real code and for the CPython cross-check.
So a clause cannot say something in the proof that the replay oracle does not also check.
"""
import enum

import z3

from .values import (Sym, PObj, PList, PGenList, PDict, PSet, JsonText, Unsupported, V, mk, kind_of, is_sym, z3_of, to_U,
                     py_eq_scalar, truthy_scalar, sym_not, sym_and, sym_or, as_z3_bool, ite_value, Opaque, Foreign)


class SpecError(Exception):
    """a clause could not be evaluated (contract bug) -> checker fault, never a verdict"""


class WildType:
    def __repr__(self):
        return '<opaque>'


WILD = WildType()


def And(*xs):
    return sym_and(*xs)


def Or(*xs):
    return sym_or(*xs)


def Not(x):
    return sym_not(x)


def Implies(a, b):
    return sym_or(sym_not(a), b)


def Iff(a, b):
    if not is_sym(a) and not is_sym(b):
        return bool(a) == bool(b)
    return mk(as_z3_bool(a) == as_z3_bool(b), 'bool')


def Ite(c, a, b):
    if not is_sym(c):
        return a if c else b
    return ite_value(c.t, a, b)


class GenItems:
    """the elements of a list of unknown length (values.PGenList): only forall / exists are defined over it"""
    def __init__(self, lst):
        self.lst = lst

    def __iter__(self):
        raise SpecError('the elements of a list of unknown length cannot be enumerated: use forall / exists')

    def __len__(self):
        raise SpecError('len of the elements of a list of unknown length')


def forall(domain, f):
    if isinstance(domain, GenItems):
        L = domain.lst
        return And(Implies(mk(L.n.t > 0, 'bool'), f(L.gen)), *[f(w) for w in L.wit])
    return And(*[f(x) for x in domain])


def exists(domain, f):
    if isinstance(domain, GenItems):
        return Not(forall(domain, lambda x: Not(f(x))))
    return Or(*[f(x) for x in domain])


def count(domain, f):
    n = 0
    for x in domain:
        n = n + Ite(f(x), 1, 0)
    return n


# ------------------------------------------------------------------------------------------- accessors
def is_obj(o):
    """an instance of a user class (engine object, or a real object on a replay / cross-check run)"""
    if isinstance(o, PObj):
        return True
    if is_sym(o) or isinstance(o, (PList, PDict, PSet, JsonText, type)) or o is None:
        return False
    return hasattr(o, '__dict__') and not isinstance(o, (bool, int, float, str, list, tuple, dict, set))


def cls_of(o):
    return o.cls if isinstance(o, PObj) else type(o)


def isinst(o, c):
    if isinstance(o, PObj):
        return issubclass(o.cls, c)
    if is_sym(o) or isinstance(o, (PList, PDict, PSet, JsonText)):
        from . import models
        return models.isinstance_one(None, o, c)
    return isinstance(o, c)


def _d(o):
    if isinstance(o, PObj):
        return o.d
    if isinstance(o, PDict):
        return o
    if isinstance(o, dict):
        return o
    return o.__dict__


def has(o, k):
    """presence of field / key k (bool or Sym bool)"""
    d = _d(o)
    if isinstance(d, PDict):
        if k not in d.e:
            return False
        g = d.e[k][0]
        return True if g is True else Sym(g, 'bool')
    return k in d


def fld(o, k):
    """value of field / key k; its presence is the caller's business (see `has`)"""
    d = _d(o)
    if isinstance(d, PDict):
        if k not in d.e:
            raise SpecError(f'no field {k!r} in {o!r}')
        return d.e[k][1]
    if k not in d:
        raise SpecError(f'no field {k!r} in {o!r}')
    return d[k]


def keys(o):
    """all keys that may be present, in order"""
    d = _d(o)
    if isinstance(d, PDict):
        return list(d.e.keys())
    return list(d.keys())


def values(o):
    """values of a dict-like in insertion order (presence must be definite)"""
    d = _d(o)
    if isinstance(d, PDict):
        return [v for (g, v) in d.e.values()]
    return list(d.values())


def items(o):
    """python list of the elements of a list / tuple / set value"""
    if isinstance(o, PGenList):
        if o.dead:
            raise SpecError('a list that holds an unknown prefix of another list (the loop that filled it raised)')
        return GenItems(o)
    if isinstance(o, (PList, PSet)):
        return list(o.items)
    return list(o)


def is_list(o):
    return isinstance(o, (PList, list))


def is_dict(o):
    return isinstance(o, (PDict, dict))


def is_none(x):
    if x is None:
        return True
    if is_sym(x) and x.k == 'U':
        return mk(V.is_none(x.t), 'bool')
    return False


def is_true(x):
    """x is the bool True"""
    if is_sym(x):
        if x.k == 'bool':
            return x
        if x.k == 'U':
            return mk(z3.And(V.is_b(x.t), V.bv(x.t)), 'bool')
        return False
    return x is True


def is_false(x):
    if is_sym(x):
        if x.k == 'bool':
            return sym_not(x)
        if x.k == 'U':
            return mk(z3.And(V.is_b(x.t), z3.Not(V.bv(x.t))), 'bool')
        return False
    return x is False


def is_bool(x):
    if is_sym(x):
        if x.k == 'bool':
            return True
        if x.k == 'U':
            return mk(V.is_b(x.t), 'bool')
        return False
    return isinstance(x, bool)


def truthy(x):
    if isinstance(x, (PList, PSet)):
        return len(x.items) > 0
    if isinstance(x, (PObj, JsonText)):
        return True
    if is_sym(x):
        return truthy_scalar(x)
    return bool(x)


def same_obj(a, b):
    return a is b


def eq(a, b):
    """structural python equality (==) without user-defined __eq__: scalars by CPython rules, containers
    element-wise, objects by class and field map"""
    if isinstance(a, (PObj,)) or isinstance(b, (PObj,)):
        if not (isinstance(a, PObj) and isinstance(b, PObj)):
            return False
        if a.cls is not b.cls:
            return False
        return eq(a.d, b.d)
    if isinstance(a, PGenList) or isinstance(b, PGenList):
        if isinstance(a, PGenList) and a.dead or isinstance(b, PGenList) and b.dead:
            raise SpecError('a list that holds an unknown prefix of another list (the loop that filled it raised)')
        if isinstance(a, PGenList) and isinstance(b, PGenList) and a.core is b.core:
            return True        # the same (immutable) list, a snapshot of it, or a list a completed loop copied it into
        other = b if isinstance(a, PGenList) else a
        if isinstance(other, (PList, list)) and not isinstance(other, PGenList) and len(items(other)) == 0:
            g = a if isinstance(a, PGenList) else b
            return mk(g.n.t == 0, 'bool')
        if other is None or isinstance(other, (bool, int, float, str, PObj, PDict, PSet, dict, set)) or \
                (is_sym(other) and kind_of(other) != 'U'):
            return False       # a list never equals a non-list
        raise SpecError('eq between a list of unknown length and another value')
    if isinstance(a, (PList, list, tuple)) and isinstance(b, (PList, list, tuple)):
        xa, xb = items(a), items(b)
        if len(xa) != len(xb):
            return False
        return And(*[eq(x, y) for x, y in zip(xa, xb)])
    if isinstance(a, (PDict, dict)) and isinstance(b, (PDict, dict)):
        ks = keys(a) + [k for k in keys(b) if k not in keys(a)]
        out = []
        for k in ks:
            ha, hb = has(a, k), has(b, k)
            out.append(Iff(ha, hb))
            if ha is not False and hb is not False:
                out.append(Implies(ha, eq(fld(a, k), fld(b, k))))
        return And(*out)
    if isinstance(a, (PSet, set, frozenset)) and isinstance(b, (PSet, set, frozenset)):
        xa, xb = items(a), items(b)
        return And(*[Or(*[eq(x, y) for y in xb]) for x in xa], *[Or(*[eq(x, y) for x in xa]) for y in xb])
    if isinstance(a, JsonText) and isinstance(b, JsonText):
        from . import models
        return models.json_value_eq(None, a.value, b.value, a.sort_keys and b.sort_keys)
    if a is WILD or b is WILD:
        return True
    if isinstance(a, (PList, PDict, PSet, JsonText, list, dict, set)) or isinstance(b, (PList, PDict, PSet, JsonText, list, dict, set)):
        if is_sym(a) or is_sym(b):
            raise SpecError(f'eq between container and symbolic scalar: {a!r} {b!r}')
        return False
    if isinstance(a, enum.Enum) or isinstance(b, enum.Enum):
        return a == b
    if not is_sym(a) and not is_sym(b):
        if hasattr(a, '__dict__') and hasattr(b, '__dict__') and not isinstance(a, type) and not isinstance(b, type):
            return type(a) is type(b) and eq(a.__dict__, b.__dict__)
        return a == b
    return py_eq_scalar(a, b)


def same(a, b):
    """identical scalar: equal value AND same python type (1 is not True is not 1.0)"""
    if is_sym(a) or is_sym(b):
        ka, kb = kind_of(a), kind_of(b)
        if ka == 'U' or kb == 'U':
            return mk(to_U(a) == to_U(b), 'bool')
        if ka != kb:
            return False
        return py_eq_scalar(a, b)
    if isinstance(a, (list, tuple, PList)) and isinstance(b, (list, tuple, PList)):
        xa, xb = items(a), items(b)
        return type(a) is type(b) and len(xa) == len(xb) and And(*[same(x, y) for x, y in zip(xa, xb)])
    return type(a) is type(b) and a == b


def ne(a, b):
    return Not(eq(a, b))


def length(x):
    if isinstance(x, PGenList):
        return x.n
    if isinstance(x, (PList, PSet)):
        return len(x.items)
    if is_sym(x) and x.k == 'str':
        return mk(z3.Length(x.t), 'int')
    return len(x)


# ------------------------------------------------------------------------------------------- outcomes
class Post:
    def __init__(self, args, kwargs, result, exc):
        self.args = args
        self.kwargs = kwargs
        self.result = result
        self.exc = exc

    def __repr__(self):
        return f'Post(result={self.result!r}, exc={self.exc!r})'


class Pre:
    def __init__(self, args, kwargs):
        self.args = args
        self.kwargs = kwargs


def returned(post):
    return post.exc is None


def raised(post, cls=BaseException):
    if post.exc is None:
        return False
    c = post.exc.cls if isinstance(post.exc, PObj) else type(post.exc)
    return issubclass(c, cls)


def fields_same(a, b, names=None):
    """objects a (before) and b (after) carry the same field map"""
    if names is None:
        return eq(_d(a), _d(b))
    out = []
    for n in names:
        ha, hb = has(a, n), has(b, n)
        out.append(Iff(ha, hb))
        if ha is not False and hb is not False:
            out.append(Implies(ha, eq(fld(a, n), fld(b, n))))
    return And(*out)


# ------------------------------------------------------------------------------------------- strings
def fullmatch(pattern, s, flags=0):
    """the whole string s is in the language of the (published) pattern -- CPython regex semantics"""
    import re
    if isinstance(s, str):
        return re.fullmatch(pattern, s, flags) is not None
    if not (is_sym(s) and s.k == 'str'):
        return False
    from . import models
    return mk(z3.InRe(s.t, models.regex_to_z3(pattern, flags, 'fullmatch')), 'bool')


def is_str(x):
    if is_sym(x):
        if x.k in ('str', 'atom'):
            return True
        if x.k == 'U':
            return mk(z3.Or(V.is_s(x.t), V.is_a(x.t)), 'bool')
        return False
    return isinstance(x, str)


def as_str(x):
    """the string inside a universal scalar (meaningful only where is_str holds)"""
    if is_sym(x) and x.k == 'U':
        return mk(V.sv(x.t), 'str')
    return x


def str_of_int(n):
    """str(n) for an integer"""
    if isinstance(n, int) and not isinstance(n, bool):
        return str(n)
    return mk(z3.If(n.t >= 0, z3.IntToStr(n.t), z3.Concat(z3.StringVal('-'), z3.IntToStr(-n.t))), 'str')


def int_ok(s):
    """int(s) succeeds.  Symbolically this is the uninterpreted int_ok(s) of the int() model: the model ties it (and int_val)
    to str.to_int on the paths where the code really converts, so code and specification share the same atoms."""
    if isinstance(s, str):
        try:
            int(s)
            return True
        except ValueError:
            return False
    from . import models
    return mk(models.INT_OK(s.t), 'bool')


def int_val(s):
    if isinstance(s, str):
        # total, like the uninterpreted function it stands for: a clause must guard its use with int_ok / a pattern
        try:
            return int(s)
        except ValueError:
            return 0
    from . import models
    return mk(models.INT_VAL(s.t), 'int')


def before(s, sep):
    """part of s before the first occurrence of the 1-char separator  (= s.split(sep)[0] when sep occurs)"""
    if isinstance(s, str):
        return s.split(sep)[0]
    from . import models
    return mk(models.SPLIT_BEFORE(s.t, z3.StringVal(sep)), 'str')


def after(s, sep):
    """part after the first separator (= s.split(sep, 1)[1]); the empty string when sep does not occur"""
    if isinstance(s, str):
        return s.split(sep, 1)[1] if sep in s else ''
    from . import models
    return mk(models.SPLIT_AFTER(s.t, z3.StringVal(sep)), 'str')


def json_valid(s):
    if isinstance(s, str):
        import json
        try:
            json.loads(s)
            return True
        except ValueError:
            return False
    from . import models
    return mk(models.JSON_VALID(s.t), 'bool')


def concat(*parts):
    """string concatenation of concrete / symbolic strings"""
    if all(isinstance(p, str) for p in parts):
        return ''.join(parts)
    ts = [z3.StringVal(p) if isinstance(p, str) else p.t for p in parts if not (isinstance(p, str) and p == '')]
    return mk(z3.Concat(*ts) if len(ts) > 1 else ts[0], 'str')
