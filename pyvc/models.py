"""
pyvc.models -- assumed contracts (models) of Python builtins and of the few library functions the verified
code calls (json, re, uuid ...).  Each model has an *exact fragment* (where it is an equality with CPython)
and is otherwise left uninterpreted (fresh symbols / Unsupported), never guessed.  Every model used on a run
is recorded in Shared.trusted and ends up in the evidence file's trusted_base.
"""
import ast
import builtins
import enum
import itertools
import json
import re as _re
import types

import z3

from .values import (Sym, PObj, PList, PGenList, PDict, PSet, DictView, JsonText, BoundMethod, BuiltinMethod, Closure,
                     SuperProxy, Foreign, Opaque, Unsupported, AnyVal, LockVal, V, mk, kind_of, is_sym, z3_of, to_U, py_eq_scalar,
                     truthy_scalar, sym_not, sym_and, sym_or, as_z3_bool, ite_value, NUM, u_is_num, u_numval)

_MODELS = {}


def model(*fns):
    def deco(f):
        for fn in fns:
            _MODELS[fn] = f
        return f
    return deco


def lookup(fn):
    try:
        return _MODELS.get(fn)
    except TypeError:
        return None


def _interp_mod():
    from . import interp
    return interp


# =========================================================================================== narrowing
def narrow(I, v):
    """universal scalar -> typed value, forking on the constructor"""
    if not (is_sym(v) and v.k == 'U'):
        return v
    u = v.t
    alts = [V.is_none(u), V.is_b(u), V.is_i(u), V.is_f(u), V.is_s(u), V.is_a(u), V.is_l(u)]
    i = I.ctx.choose(alts)
    if i == 0:
        return None
    if i == 6:
        raise Unsupported('container stored in a universal scalar')
    return mk([None, V.bv, V.iv, V.fv, V.sv, V.av][i](u), [None, 'bool', 'int', 'real', 'str', 'atom'][i])


# =========================================================================================== builtins
@model(builtins.len)
def m_len(I, args, kw):
    (v,) = args
    return length(I, v)


def length(I, v):
    if isinstance(v, AnyVal):
        I.any_op(f'len({v.label})', result=False)
        n = I.ctx.fresh('anylen', 'int')
        I.ctx.assume(n.t >= 0)
        return n
    if isinstance(v, (PList, PSet)):
        return len(v.items)
    if isinstance(v, tuple):
        return len(v)
    if isinstance(v, PDict):
        return I.dict_len(v)
    if isinstance(v, DictView):
        return I.dict_len(v.d)
    if isinstance(v, str):
        return len(v)
    if is_sym(v) and v.k == 'str':
        return mk(z3.Length(v.t), 'int')
    if isinstance(v, JsonText):
        return jsontext_len(I, v)
    if isinstance(v, PObj):
        m = I.find_method(v.cls, '__len__')
        if m is not None:
            return I.call(m, [v], {})
        I.raise_(TypeError, 'object has no len()')
    if is_sym(v) and v.k == 'U':
        return length(I, narrow(I, v))
    if hasattr(v, '__pyvc_len__'):
        return v.__pyvc_len__(I)
    if v is None or isinstance(v, (int, float)) or is_sym(v):
        I.raise_(TypeError, 'object has no len()')
    raise Unsupported(f'len of {type(v).__name__}')


def isinstance_one(I, v, c):
    if not isinstance(c, type):
        raise Unsupported(f'isinstance against {c!r}')
    if type(v).__name__ == 'NXGraph':
        import networkx
        return issubclass(networkx.Graph, c)
    if isinstance(v, PObj):
        return issubclass(v.cls, c)
    if isinstance(v, PList):
        return issubclass(list, c)
    if isinstance(v, PDict):
        return issubclass(dict, c)
    if isinstance(v, PSet):
        return issubclass(set, c)
    if isinstance(v, JsonText):
        return issubclass(str, c)
    if is_sym(v):
        k = v.k
        if k == 'U':
            u = v.t
            parts = []
            if issubclass(bool, c):
                parts.append(V.is_b(u))
            if issubclass(int, c) and c is not bool:
                parts.append(V.is_i(u))
            if issubclass(float, c):
                parts.append(V.is_f(u))
            if issubclass(str, c):
                parts += [V.is_s(u), V.is_a(u)]
            if issubclass(list, c):
                parts.append(V.is_l(u))
            if issubclass(type(None), c):
                parts.append(V.is_none(u))
            if not parts:
                return False
            return mk(z3.Or(*parts), 'bool')
        pyt = {'int': int, 'bool': bool, 'real': float, 'str': str, 'atom': str}[k]
        return issubclass(pyt, c)
    if isinstance(v, (Foreign, Opaque)):
        raise Unsupported('isinstance of opaque value')
    if isinstance(v, (Closure, BoundMethod, BuiltinMethod)):
        return c in (object,) or c.__name__ in ('FunctionType', 'Callable')
    return isinstance(v, c)


@model(builtins.isinstance)
def m_isinstance(I, args, kw):
    v, c = args
    cs = c if isinstance(c, tuple) else (c,)
    return sym_or(*[isinstance_one(I, v, x) for x in cs])


@model(builtins.issubclass)
def m_issubclass(I, args, kw):
    a, b = args
    return issubclass(a, b)


@model(builtins.type)
def m_type(I, args, kw):
    (v,) = args
    if isinstance(v, PObj):
        return v.cls
    if isinstance(v, PList):
        return list
    if isinstance(v, PDict):
        return dict
    if isinstance(v, PSet):
        return set
    if is_sym(v):
        if v.k == 'U':
            return m_type(I, [narrow(I, v)], kw)
        return {'int': int, 'bool': bool, 'real': float, 'str': str, 'atom': str}[v.k]
    if isinstance(v, JsonText):
        return str
    return type(v)


@model(builtins.print)
def m_print(I, args, kw):
    return None


@model(builtins.id)
def m_id(I, args, kw):
    raise Unsupported('id()')


@model(builtins.list)
def m_list(I, args, kw):
    if not args:
        return PList()
    if isinstance(args[0], AnyVal):
        return I.any_op(f'list({args[0].label})')
    return PList(list(I.iterate(args[0])))


@model(builtins.tuple)
def m_tuple(I, args, kw):
    if not args:
        return ()
    return tuple(I.iterate(args[0]))


@model(builtins.dict)
def m_dict(I, args, kw):
    d = PDict()
    if args:
        src = args[0]
        if isinstance(src, PDict):
            for k in I.dict_keys_now(src):
                I.dict_set(d, k, src.e[k][1])
        else:
            for kv in I.iterate(src):
                k, v = list(I.iterate(kv))
                I.dict_set(d, k, v)
    for k, v in kw.items():
        I.dict_set(d, k, v)
    return d


def make_set(I, items):
    s = PSet()
    for x in items:
        set_add(I, s, x)
    return s


def set_add(I, s, x):
    for y in s.items:
        if I.ctx.branch(hash_eq(I, x, y)):
            return
    s.items.append(x)
    s.version += 1
    I.ctx.mutations += 1


def hash_eq(I, x, y):
    if isinstance(x, (PList, PDict, PSet)) or isinstance(y, (PList, PDict, PSet)):
        I.raise_(TypeError, 'unhashable type')
    return I.py_eq(x, y)


@model(builtins.set, builtins.frozenset)
def m_set(I, args, kw):
    return make_set(I, list(I.iterate(args[0])) if args else [])


@model(builtins.bool)
def m_bool(I, args, kw):
    return I.truthy(args[0]) if args else False


@model(builtins.str)
def m_str(I, args, kw):
    if not args:
        return ''
    return to_str(I, args[0])


def to_str(I, v):
    if isinstance(v, str):
        return v
    if type(v).__name__ == 'UUID':
        return str(v)
    if isinstance(v, enum.Enum):
        m = I.find_method(type(v), '__str__')
        if m is not None:
            return I.call(m, [v], {})
        return str(v)
    if v is None or isinstance(v, (bool, int, float)):
        return str(v)
    if is_sym(v):
        if v.k in ('str', 'atom'):
            return v
        if v.k == 'int':
            I.ctx.trust('str(int): z3 int.to.str for non-negative, "-"+int.to.str(-x) otherwise')
            return mk(z3.If(v.t >= 0, z3.IntToStr(v.t), z3.Concat(z3.StringVal('-'), z3.IntToStr(-v.t))), 'str')
        if v.k == 'bool':
            return mk(z3.If(v.t, z3.StringVal('True'), z3.StringVal('False')), 'str')
        if v.k == 'U':
            return to_str(I, narrow(I, v))
        return I.ctx.fresh('strof', 'str')
    if isinstance(v, PObj):
        m = I.find_method(v.cls, '__str__') or I.find_method(v.cls, '__repr__')
        if m is not None:
            return I.call(m, [v], {})
        return I.ctx.fresh('strof', 'str')
    if isinstance(v, JsonText):
        return v
    if isinstance(v, (PList, PDict, PSet, tuple)):
        if fully_concrete(v):
            return str(reify_concrete(v))
        return I.ctx.fresh('strof', 'str')
    if isinstance(v, type):
        return str(v)
    return I.ctx.fresh('strof', 'str')


_INT_RE = None


@model(builtins.int)
def m_int(I, args, kw):
    if not args:
        return 0
    v = args[0]
    if len(args) > 1 or kw:
        raise Unsupported('int() with base')
    if is_sym(v) and v.k == 'U':
        v = narrow(I, v)
    if not is_sym(v):
        if isinstance(v, (PObj, PList, PDict, PSet, JsonText, tuple)) or v is None:
            I.raise_(TypeError, 'int() argument must be a string or a number')
        try:
            return int(v)
        except ValueError as e:
            I.raise_(ValueError, str(e))
        except OverflowError as e:
            I.raise_(OverflowError, str(e))
    if v.k == 'int':
        return v
    if v.k == 'bool':
        return mk(z3_of(v, 'int'), 'int')
    if v.k == 'real':
        raise Unsupported('int(float)')
    if v.k == 'atom':
        raise Unsupported('int(atom)')
    # int(str): exact on [0-9]+ and -[0-9]+ (ASCII); everything else is left uninterpreted: the call may raise
    # ValueError or return some integer (blanks, '+', '_' separators, non-ASCII digits are accepted by CPython)
    I.ctx.trust('int(str): exact on ASCII [0-9]+ / -[0-9]+ via z3 str.to.int; other strings: uninterpreted '
                '(may raise ValueError or return an unconstrained int)')
    s = v.t
    digits = z3.Plus(z3.Range('0', '9'))
    nonneg = z3.InRe(s, digits)
    neg = z3.InRe(s, z3.Concat(z3.Re('-'), digits))
    other = z3.And(z3.Not(nonneg), z3.Not(neg))
    key = ('int', s.get_id())
    if key in I.ctx.memo:
        i = I.ctx.memo[key]
    else:
        i = I.ctx.choose([nonneg, neg, other], 'int(str)')
        if i == 2:
            i = 2 if I.ctx.branch(mk(INT_OK(s), 'bool')) else 3
        I.ctx.memo[key] = i
    # the value is always the term int_val(s); on the exact fragment it is tied to z3's str.to_int by an assumed equality
    # (so code and specification talk about the same atoms and the numeric part is plain linear arithmetic)
    if i == 0:
        I.ctx.assume(z3.And(INT_OK(s), INT_VAL(s) == z3.StrToInt(s)))
        return mk(INT_VAL(s), 'int')
    if i == 1:
        r = I.ctx.fresh('int_digits', 'str').t
        I.ctx.assume(z3.And(s == z3.Concat(z3.StringVal('-'), r), z3.InRe(r, digits), INT_OK(s),
                            INT_VAL(s) == -z3.StrToInt(r)))
        return mk(INT_VAL(s), 'int')
    if i == 3:
        I.raise_(ValueError, 'invalid literal for int()')
    I.ctx.notes.append('int(str) outside the exact fragment: result uninterpreted')
    return mk(INT_VAL(s), 'int')


INT_OK = z3.Function('int_ok', z3.StringSort(), z3.BoolSort())
INT_VAL = z3.Function('int_val', z3.StringSort(), z3.IntSort())


def _oracle_int_ok(s):
    try:
        int(s)
        return True
    except ValueError:
        return False


def _oracle_int_val(s):
    try:
        return int(s)
    except ValueError:
        return None


def _oracle_json_valid(s):
    try:
        json.loads(s)
        return True
    except ValueError:
        return False


def oracle_seeds():
    """arguments on which the real function is known to answer True (valid JSON texts of various lengths)"""
    return {**EXTRA_SEEDS, JSON_VALID.name(): ['{}', '[]', '0', '""'] + ['[' + ' ' * n + ']' for n in (1020, 1023, 1030, 2044, 2047, 2050, 4092, 4095, 4100)],
            INT_OK.name(): [' 7', '+7', '07', '0_7', '7\n', ' -1 ', '123\n', '1-2']}


# uninterpreted functions that stand for a real python function: used ONLY to steer counter-models and cross-check
# models towards what CPython really does (never in the proof direction)
EXTRA_ORACLES = {}
EXTRA_SEEDS = {}


def oracles():
    return {**EXTRA_ORACLES, INT_OK.name(): (INT_OK, _oracle_int_ok), INT_VAL.name(): (INT_VAL, _oracle_int_val),
            JSON_VALID.name(): (JSON_VALID, _oracle_json_valid),
            SPLIT_BEFORE.name(): (SPLIT_BEFORE, lambda s, sep: s.split(sep)[0] if sep in s else None),
            SPLIT_AFTER.name(): (SPLIT_AFTER, lambda s, sep: s.split(sep, 1)[1] if sep in s else None)}


@model(builtins.float)
def m_float(I, args, kw):
    v = args[0]
    if not is_sym(v):
        try:
            return float(v)
        except (ValueError, TypeError) as e:
            I.raise_(type(e), str(e))
    if v.k == 'real':
        return v
    if v.k in ('int', 'bool'):
        return mk(z3_of(v, 'real'), 'real')
    raise Unsupported('float() of symbolic string')


@model(builtins.range)
def m_range(I, args, kw):
    if any(is_sym(a) for a in args):
        raise Unsupported('range() with symbolic bound')
    return PList(list(range(*args)))


@model(builtins.enumerate)
def m_enumerate(I, args, kw):
    start = args[1] if len(args) > 1 else kw.get('start', 0)
    return PList([(i + start, x) for i, x in enumerate(I.iterate(args[0]))])


@model(builtins.zip)
def m_zip(I, args, kw):
    return PList([tuple(t) for t in zip(*[list(I.iterate(a)) for a in args])])


@model(builtins.reversed)
def m_reversed(I, args, kw):
    return PList(list(reversed(list(I.iterate(args[0])))))


class PIter:
    """iter(x): a ONE-PASS iterator over the elements x has now -- `in`, next() and loops consume it (an earlier version
    returned a fresh list, so `hop in iterator` did not consume: found by a seeded change, section 7 of DESIGN.md)"""

    def __init__(self, items):
        self.items = list(items)
        self.pos = 0

    def __pyvc_iter__(self, I):
        while self.pos < len(self.items):
            x = self.items[self.pos]
            self.pos += 1
            I.ctx.mutations += 1
            yield x

    def __pyvc_contains__(self, I, x):
        # python: compares element by element and stops AFTER the first equal one; not found = exhausted
        while self.pos < len(self.items):
            y = self.items[self.pos]
            self.pos += 1
            I.ctx.mutations += 1
            if I.ctx.branch(I.truthy(identity_or_eq(I, x, y))):
                return True
        return False


@model(builtins.iter)
def m_iter(I, args, kw):
    if len(args) != 1 or kw:
        raise Unsupported('iter(callable, sentinel)')
    if isinstance(args[0], PIter):
        return args[0]
    if I.ctx.guards:
        raise _interp_mod().CannotConvert()
    return PIter(list(I.iterate(args[0])))


@model(builtins.next)
def m_next(I, args, kw):
    it = args[0]
    if not isinstance(it, PIter):
        raise Unsupported('next() on something that is not an iter() iterator')
    if I.ctx.guards:
        raise _interp_mod().CannotConvert()
    for x in it.__pyvc_iter__(I):
        return x
    if len(args) > 1:
        return args[1]
    I.raise_(StopIteration)


@model(builtins.any)
def m_any(I, args, kw):
    for x in I.iterate(args[0]):
        if I.ctx.branch(I.truthy(x)):
            return True
    return False


@model(builtins.all)
def m_all(I, args, kw):
    for x in I.iterate(args[0]):
        if not I.ctx.branch(I.truthy(x)):
            return False
    return True


@model(builtins.sum)
def m_sum(I, args, kw):
    acc = args[1] if len(args) > 1 else 0
    for x in I.iterate(args[0]):
        acc = I.binop(ast.Add(), acc, x)
    return acc


def _minmax(I, args, kw, is_min):
    if set(kw) - {'default'}:
        raise Unsupported('min/max with key')
    seq = list(I.iterate(args[0])) if len(args) == 1 else list(args)
    if not seq:
        if 'default' in kw:
            return kw['default']
        I.raise_(ValueError, 'min()/max() arg is an empty sequence')
    best = seq[0]
    for x in seq[1:]:
        c = I.compare(ast.Lt() if is_min else ast.Gt(), x, best)
        if isinstance(c, Sym):
            try:
                best = ite_value(c.t, x, best)
                continue
            except Unsupported:
                c = I.ctx.branch(c)
        if c:
            best = x
    return best


@model(builtins.min)
def m_min(I, args, kw):
    return _minmax(I, args, kw, True)


@model(builtins.max)
def m_max(I, args, kw):
    return _minmax(I, args, kw, False)


@model(builtins.abs)
def m_abs(I, args, kw):
    v = args[0]
    if not is_sym(v):
        return abs(v)
    return mk(z3.If(v.t >= 0, v.t, -v.t), v.k)


@model(builtins.hasattr)
def m_hasattr(I, args, kw):
    obj, name = args
    try:
        I.getattr_(obj, name)
        return True
    except _interp_mod().PyRaise as pr:
        if issubclass(pr.exc.cls, AttributeError):
            return False
        raise


@model(builtins.getattr)
def m_getattr(I, args, kw):
    obj, name = args[0], args[1]
    if is_sym(name):
        raise Unsupported('getattr with symbolic name')
    try:
        return I.getattr_(obj, name)
    except _interp_mod().PyRaise as pr:
        if len(args) > 2 and issubclass(pr.exc.cls, AttributeError):
            return args[2]
        raise


@model(builtins.setattr)
def m_setattr(I, args, kw):
    obj, name, val = args
    I.setattr_(obj, name, val)


@model(builtins.callable)
def m_callable(I, args, kw):
    v = args[0]
    return isinstance(v, (Closure, BoundMethod, BuiltinMethod, types.FunctionType, type, types.BuiltinFunctionType))


@model(builtins.sorted)
def m_sorted(I, args, kw):
    if isinstance(args[0], AnyVal):
        # unknown collection (havoc mode): the sorted copy is unknown too
        I.any_op(f'sorted({args[0].label})', result=False)
        return AnyVal(f'sorted({args[0].label})')
    items = list(I.iterate(args[0]))
    if kw:
        raise Unsupported('sorted with key/reverse')
    return PList(sort_concrete(I, items))


def sort_concrete(I, items):
    if all(not is_sym(x) and isinstance(x, (int, float, str)) for x in items):
        try:
            return sorted(items)
        except TypeError as e:
            I.raise_(TypeError, str(e))
    raise Unsupported('sort of symbolic / structured items')


# =========================================================================================== methods
def lock_method(I, lk, name, args, kw):
    if name == 'acquire':
        lk.trace.append('acquire')
        if lk.held:
            lk.errors.append('acquire while already held by this call (blocks forever)')
            raise Unsupported('deadlock: acquire of a lock this call already holds')
        lk.held = True
        lk.acquires += 1
        return True
    if name == 'release':
        lk.trace.append('release')
        if not lk.held:
            lk.errors.append('release of an unlocked lock')
            I.raise_(RuntimeError, 'release unlocked lock')
        lk.held = False
        lk.releases += 1
        return None
    if name == 'locked':
        return lk.held
    raise Unsupported(f'Lock.{name}')


def native_call(I, fn, args, kw):
    """call of a method / constructor of an immutable standard-library value on concrete arguments: executed by CPython"""
    if any(is_sym(a) or isinstance(a, (PObj, PList, PDict, PSet, JsonText)) for a in list(args) + list(kw.values())):
        raise Unsupported(f'native call {getattr(fn, "__qualname__", fn)} with symbolic arguments')
    try:
        return I.lift(fn(*args, **kw))
    except (ValueError, TypeError, OverflowError) as e:
        I.raise_(type(e), str(e))


def builtin_method(I, recv, name, args, kw):
    from .interp import NATIVE_VALUES
    if isinstance(recv, NATIVE_VALUES):
        return native_call(I, getattr(recv, name), args, kw)
    if isinstance(recv, LockVal):
        return lock_method(I, recv, name, args, kw)
    if hasattr(recv, 'pyvc_method'):
        return recv.pyvc_method(I, name, args, kw)
    if isinstance(recv, PObj):
        return object_method(I, recv, name, args, kw)
    if isinstance(recv, PDict):
        return dict_method(I, recv, name, args, kw)
    if isinstance(recv, DictView):
        raise Unsupported(f'dict view method {name}')
    if isinstance(recv, PList):
        return list_method(I, recv, name, args, kw)
    if isinstance(recv, PSet):
        return set_method(I, recv, name, args, kw)
    if isinstance(recv, _re.Pattern):
        return re_match(I, recv.pattern, recv.flags & ~_re.UNICODE, args[0], name)
    if isinstance(recv, str) or is_sym(recv) or isinstance(recv, JsonText):
        return str_method(I, recv, name, args, kw)
    if isinstance(recv, tuple):
        if name == 'index' or name == 'count':
            return list_method(I, PList(list(recv)), name, args, kw)
    if isinstance(recv, type) and name == '__init__':
        return None
    raise Unsupported(f'method {name} of {type(recv).__name__}')


def mapping_mixin(I, obj, name, args, kw):
    """collections.abc.Mapping mixin methods in terms of the class's own __getitem__ / __iter__ / __len__"""
    interp = _interp_mod()
    geti = I.find_method(obj.cls, '__getitem__')
    keys = lambda: list(I.iterate(obj))
    if name == 'keys':
        return PList(keys())
    if name == 'values':
        return PList([I.call(geti, [obj, k], {}) for k in keys()])
    if name == 'items':
        return PList([(k, I.call(geti, [obj, k], {})) for k in keys()])
    if name in ('get', '__contains__'):
        try:
            v = I.call(geti, [obj, args[0]], {})
            return v if name == 'get' else True
        except interp.PyRaise as pr:
            if issubclass(pr.exc.cls, KeyError):
                return (args[1] if len(args) > 1 else None) if name == 'get' else False
            raise
    raise Unsupported(f'Mapping.{name}')


def object_method(I, obj, name, args, kw):
    if name in ('keys', 'values', 'items', 'get', '__contains__') and I.find_method(obj.cls, '__getitem__') is not None:
        return mapping_mixin(I, obj, name, args, kw)
    if name == '__getattribute__':
        (attr,) = args
        if is_sym(attr):
            raise Unsupported('__getattribute__ with symbolic name')
        return I.obj_getattr(obj, attr, use_getattr_hook=False)
    if name == '__setattr__':
        attr, val = args
        if is_sym(attr):
            raise Unsupported('__setattr__ with symbolic name')
        I.dict_set(obj.d, attr, val)
        return None
    if name == '__init__':
        # object.__init__ / Exception.__init__
        if issubclass(obj.cls, BaseException):
            I.dict_set(obj.d, 'args', tuple(args))
        return None
    if name in ('__eq__',):
        return obj is args[0]
    if name == '__hash__':
        raise Unsupported('object.__hash__')
    raise Unsupported(f'object method {name}')


def dict_method(I, d, name, args, kw):
    if name == 'get':
        k = args[0]
        default = args[1] if len(args) > 1 else None
        k = I._key(k, d)
        if I.ctx.guards and k in d.e and d.e[k][0] is not True:
            g, v = d.e[k]
            return ite_value(g, v, default)
        if I.dict_present(d, k):
            return d.e[k][1]
        return default
    if name == 'pop':
        if len(args) > 1:
            return I.dict_pop(d, args[0], args[1])
        return I.dict_pop(d, args[0])
    if name == 'items':
        return DictView(d, 'items')
    if name == 'keys':
        return DictView(d, 'keys')
    if name == 'values':
        return DictView(d, 'values')
    if name == 'copy':
        nd = PDict()
        if type(d).__name__ == 'PDefaultDict':
            from .nxmodel import PDefaultDict
            nd = PDefaultDict(d.factory)
        for k, (g, v) in d.e.items():
            nd.e[k] = [g, v]
        return nd
    if name == 'update':
        if args:
            src = args[0]
            if isinstance(src, PDict):
                for k in I.dict_keys_now(src):
                    I.dict_set(d, k, src.e[k][1])
            else:
                for kv in I.iterate(src):
                    k, v = list(I.iterate(kv))
                    I.dict_set(d, k, v)
        for k, v in kw.items():
            I.dict_set(d, k, v)
        return None
    if name == 'setdefault':
        k = I._key(args[0], d)
        if I.dict_present(d, k):
            return d.e[k][1]
        v = args[1] if len(args) > 1 else None
        I.dict_set(d, k, v)
        return v
    if name == 'clear':
        if I.ctx.guards:
            raise _interp_mod().CannotConvert()
        d.e.clear()
        d.version += 1
        I.ctx.mutations += 1
        return None
    if name == '__contains__':
        return contains(I, d, args[0])
    if name == '__getitem__':
        return getitem(I, d, args[0])
    if name == '__setitem__':
        return setitem(I, d, args[0], args[1])
    if name == '__iter__':
        return DictView(d, 'keys')
    if name == '__len__':
        return I.dict_len(d)
    if name in ('__repr__', '__str__'):
        return to_str(I, d)
    if name == '__hash__':
        I.raise_(TypeError, "unhashable type: 'dict'")
    raise Unsupported(f'dict.{name}')


def dict_get_symkey(I, d, k, default):
    """d.get(k) for a symbolic key over a dict with concrete keys: fork over the keys"""
    keys = I.dict_keys_now(d)
    conds = []
    for kk in keys:
        e = I.py_eq(k, kk)
        conds.append(as_z3_bool(e))
    none = z3.And(*[z3.Not(c) for c in conds]) if conds else z3.BoolVal(True)
    i = I.ctx.choose(conds + [none])
    if i < len(keys):
        return d.e[keys[i]][1]
    return default


def list_method(I, l, name, args, kw):
    ctx = I.ctx
    if name in ('append', 'extend', 'remove', 'pop', 'insert', 'sort', 'clear', 'reverse'):
        if ctx.guards:
            raise _interp_mod().CannotConvert()
        ctx.mutations += 1
        l.version += 1
    if name == 'append':
        l.items.append(args[0])
        return None
    if name == 'extend':
        l.items.extend(list(I.iterate(args[0])))
        return None
    if name == 'insert':
        if is_sym(args[0]):
            raise Unsupported('list.insert at symbolic index')
        l.items.insert(args[0], args[1])
        return None
    if name == 'remove':
        for i, x in enumerate(l.items):
            if I.ctx.branch(I.py_eq(x, args[0])):
                del l.items[i]
                return None
        I.raise_(ValueError, 'list.remove(x): x not in list')
    if name == 'pop':
        if not l.items:
            I.raise_(IndexError, 'pop from empty list')
        idx = args[0] if args else -1
        if is_sym(idx):
            raise Unsupported('list.pop at symbolic index')
        try:
            return l.items.pop(idx)
        except IndexError:
            I.raise_(IndexError, 'pop index out of range')
    if name == 'index':
        for i, x in enumerate(l.items):
            if I.ctx.branch(I.py_eq(x, args[0])):
                return i
        I.raise_(ValueError, 'not in list')
    if name == 'count':
        n = 0
        for x in l.items:
            n = I.binop(ast.Add(), n, ite_value(as_z3_bool(I.py_eq(x, args[0])), 1, 0))
        return n
    if name == 'copy':
        return PList(l.items)
    if name == 'sort':
        if kw:
            raise Unsupported('list.sort with key/reverse')
        l.items[:] = sort_concrete(I, l.items)
        return None
    if name == 'clear':
        l.items.clear()
        return None
    if name == 'reverse':
        l.items.reverse()
        return None
    if name == '__contains__':
        return contains(I, l, args[0])
    raise Unsupported(f'list.{name}')


def set_method(I, s, name, args, kw):
    if name == 'add':
        if I.ctx.guards:
            raise _interp_mod().CannotConvert()
        set_add(I, s, args[0])
        return None
    if name in ('remove', 'discard'):
        if I.ctx.guards:
            raise _interp_mod().CannotConvert()
        for i, y in enumerate(s.items):
            if I.ctx.branch(hash_eq(I, args[0], y)):
                del s.items[i]
                s.version += 1
                I.ctx.mutations += 1
                return None
        if name == 'remove':
            I.raise_(KeyError, args[0])
        return None
    if name in ('union', 'intersection', 'difference', 'symmetric_difference', 'issubset', 'issuperset', 'isdisjoint'):
        other = make_set(I, list(I.iterate(args[0])))
        if name == 'union':
            return make_set(I, s.items + other.items)
        inter = [x for x in s.items if I.ctx.branch(contains(I, other, x))]
        if name == 'intersection':
            return PSet(inter)
        if name == 'difference':
            return PSet([x for x in s.items if not any(x is y for y in inter)])
        if name == 'issubset':
            return len(inter) == len(s.items)
        if name == 'isdisjoint':
            return len(inter) == 0
        if name == 'issuperset':
            return len(inter) == len(other.items)
        raise Unsupported('symmetric_difference')
    if name == 'copy':
        return PSet(s.items)
    if name in ('difference_update', 'intersection_update'):
        if I.ctx.guards:
            raise _interp_mod().CannotConvert()
        other = make_set(I, [x for a in args for x in I.iterate(a)])
        keep = []
        for x in s.items:
            inside = I.ctx.branch(contains(I, other, x))
            if inside == (name == 'intersection_update'):
                keep.append(x)
        s.items[:] = keep
        s.version += 1
        I.ctx.mutations += 1
        return None
    if name == 'update':
        for x in list(I.iterate(args[0])):
            set_add(I, s, x)
        return None
    if name == 'pop':
        if len(s.items) == 0:
            I.raise_(KeyError, 'pop from an empty set')
        if len(s.items) > 1:
            raise Unsupported('set.pop from a set with several elements (order unspecified)')
        if I.ctx.guards:
            raise _interp_mod().CannotConvert()
        s.version += 1
        I.ctx.mutations += 1
        return s.items.pop()
    raise Unsupported(f'set.{name}')


def set_eq(I, a, b):
    if len(a.items) != len(b.items):
        # distinct elements are kept distinct by construction
        return False
    return sym_and(*[contains(I, b, x) for x in a.items])


def dict_eq(I, a, b):
    ka, kb = I.dict_keys_now(a), I.dict_keys_now(b)
    if set(map(id_key, ka)) != set(map(id_key, kb)):
        return False
    return sym_and(*[I.py_eq(a.e[k][1], b.e[k][1]) for k in ka])


def id_key(k):
    return k


# ------------------------------------------------------------------------------------------- strings
def str_method(I, s, name, args, kw):
    if isinstance(s, JsonText):
        raise Unsupported(f'str.{name} on a json text')
    if isinstance(s, str) and all(not is_sym(a) and isinstance(a, (str, int, type(None), tuple)) for a in args) and not kw:
        if name == 'join':
            pass
        else:
            try:
                return I.lift(getattr(s, name)(*args))
            except (ValueError, TypeError, IndexError) as e:
                I.raise_(type(e), str(e))
    if name == 'join':
        if hasattr(args[0], 'pyvc_join'):
            return args[0].pyvc_join(I, s)
        parts = list(I.iterate(args[0]))
        out = []
        for i, p in enumerate(parts):
            if i:
                out.append(s)
            if not (isinstance(p, str) or is_sym(p) and p.k == 'str'):
                if is_sym(p) and p.k == 'U':
                    p = narrow(I, p)
                if not (isinstance(p, str) or is_sym(p) and p.k == 'str'):
                    I.raise_(TypeError, 'sequence item: expected str instance')
            out.append(p)
        return concat_str(I, out)
    if is_sym(s) and s.k == 'U':
        s = narrow(I, s)
        return builtin_method(I, s, name, args, kw) if (isinstance(s, str) or is_sym(s)) else I.raise_(AttributeError, name)
    if is_sym(s) and s.k != 'str':
        if s.k == 'atom':
            raise Unsupported(f'str.{name} on an abstract atom')
        I.raise_(AttributeError, name)
    st = z3_of(s)
    if name == 'startswith':
        return mk(z3.PrefixOf(z3_of(args[0]), st), 'bool')
    if name == 'endswith':
        return mk(z3.SuffixOf(z3_of(args[0]), st), 'bool')
    if name == 'split':
        return str_split(I, s, args, kw)
    if name == 'rsplit':
        return str_rsplit1(I, s, args, kw)
    if name in ('strip', 'lstrip', 'rstrip') and not args and not kw:
        return str_strip(I, s, name)
    if name == 'format':
        return I.ctx.fresh('fmt', 'str')
    if name in ('strip', 'lstrip', 'rstrip', 'lower', 'upper', 'replace', 'encode', 'title', 'capitalize'):
        raise Unsupported(f'str.{name} on a symbolic string (with these arguments)')
    if name in ('isdigit', 'isnumeric', 'isalpha', 'isalnum'):
        raise Unsupported(f'str.{name} on a symbolic string')
    if name == 'find':
        return mk(z3.IndexOf(st, z3_of(args[0]), 0), 'int')
    if name == '__len__':
        return mk(z3.Length(st), 'int')
    raise Unsupported(f'str.{name}')


def str_split1(I, s, sep):
    """s.split(sep, 1) for a symbolic s and a concrete one-character sep: exact (s == a + sep + r with no sep in a)"""
    ctx = I.ctx
    st, sp, nosep = s.t, z3.StringVal(sep), nosep_re(sep)
    key = ('split1', st.get_id(), sep)
    if key in ctx.memo:
        i = ctx.memo[key]
    else:
        i = ctx.memo[key] = ctx.choose([z3.InRe(st, nosep), z3.Contains(st, sp)], 'split(sep, 1)')
    if i == 0:
        return PList([s])
    a, r = SPLIT_BEFORE(st, sp), SPLIT_AFTER(st, sp)
    ctx.assume(z3.And(st == z3.Concat(a, sp, r), z3.InRe(a, nosep)))
    return PList([mk(a, 'str'), mk(r, 'str')])


def str_strip(I, s, which):
    """s.strip() / lstrip() / rstrip() without arguments: s == w1 + t + w2 with w1, w2 whitespace runs (python's isspace set
    is the regex \\s set; exact on ASCII, block representative elsewhere) and t not starting / ending with whitespace"""
    ctx = I.ctx
    ws = _ranges_to_re(_class_ranges('space'))
    nonws = _ranges_to_re(_negate(_class_ranges('space')))
    full = z3.Full(z3.ReSort(z3.StringSort()))
    eps = z3.Re(z3.StringVal(''))
    key = ('strip', s.t.get_id(), which)
    if key in ctx.memo:
        return ctx.memo[key]
    w1, t, w2 = ctx.fresh('ws_head', 'str'), ctx.fresh('stripped', 'str'), ctx.fresh('ws_tail', 'str')
    left = which in ('strip', 'lstrip')
    right = which in ('strip', 'rstrip')
    core = {('strip'): z3.Union(eps, nonws, z3.Concat(nonws, full, nonws)),
            ('lstrip'): z3.Union(eps, z3.Concat(nonws, full)),
            ('rstrip'): z3.Union(eps, z3.Concat(full, nonws))}[which]
    ctx.assume(z3.And(s.t == z3.Concat(w1.t, t.t, w2.t),
                      z3.InRe(w1.t, z3.Star(ws)) if left else w1.t == z3.StringVal(''),
                      z3.InRe(w2.t, z3.Star(ws)) if right else w2.t == z3.StringVal(''),
                      z3.InRe(t.t, core)))
    ctx.trust('str.strip()/lstrip()/rstrip(): whitespace = the regex \\s class of the abstract alphabet')
    ctx.memo[key] = t
    return t


def str_split(I, s, args, kw):
    """s.split(sep) for a symbolic s and a concrete one-character sep: fork on the number of separators (0..2)"""
    if len(args) == 2 and args[1] == 1 and isinstance(args[0], str) and len(args[0]) == 1 and not kw:
        return str_split1(I, s, args[0])
    if not args or not isinstance(args[0], str) or len(args[0]) != 1 or len(args) > 1 or kw:
        raise Unsupported('split without a concrete 1-char separator')
    sep = args[0]
    ctx = I.ctx
    ctx.trust('str.split(sep): exact for 0, 1 or 2 occurrences of a one-character separator; more: unsupported')
    st = s.t
    sp = z3.StringVal(sep)
    nosep = nosep_re(sep)
    one = z3.Re(sp)
    c0 = z3.InRe(st, nosep)
    c1 = z3.InRe(st, z3.Concat(nosep, one, nosep))
    c2 = z3.InRe(st, z3.Concat(nosep, one, nosep, one, nosep))
    many = z3.InRe(st, z3.Concat(nosep, one, nosep, one, nosep, one, z3.Full(z3.ReSort(z3.StringSort()))))
    key = ('split', st.get_id(), sep)
    if key in ctx.memo:
        i = ctx.memo[key]
    else:
        i = ctx.memo[key] = ctx.choose([c0, c1, c2, many], 'split')
    if i == 0:
        return PList([s])
    a, r = SPLIT_BEFORE(st, sp), SPLIT_AFTER(st, sp)
    ctx.assume(z3.And(st == z3.Concat(a, sp, r), z3.InRe(a, nosep)))
    if i == 1:
        ctx.assume(z3.InRe(r, nosep))
        return PList([mk(a, 'str'), mk(r, 'str')])
    if i == 2:
        b, c = SPLIT_BEFORE(r, sp), SPLIT_AFTER(r, sp)
        ctx.assume(z3.And(r == z3.Concat(b, sp, c), z3.InRe(b, nosep), z3.InRe(c, nosep)))
        return PList([mk(a, 'str'), mk(b, 'str'), mk(c, 'str')])
    raise Unsupported('split: more than two separators')


def str_rsplit1(I, s, args, kw):
    """s.rsplit(sep, 1) for a symbolic s and a concrete one-character sep: exact (the two parts are determined by
    s == a + sep + r with no sep in r)"""
    if len(args) != 2 or kw or not isinstance(args[0], str) or len(args[0]) != 1 or args[1] != 1:
        raise Unsupported('rsplit other than rsplit(<1-char sep>, 1)')
    sep = args[0]
    ctx = I.ctx
    st, sp, nosep = s.t, z3.StringVal(sep), nosep_re(sep)
    key = ('rsplit', st.get_id(), sep)
    if key in ctx.memo:
        i = ctx.memo[key]
    else:
        i = ctx.memo[key] = ctx.choose([z3.InRe(st, nosep), z3.Contains(st, sp)], 'rsplit')
    if i == 0:
        return PList([s])
    a, r = ctx.fresh('rsplit_head', 'str'), ctx.fresh('rsplit_tail', 'str')
    ctx.assume(z3.And(st == z3.Concat(a.t, sp, r.t), z3.InRe(r.t, nosep)))
    return PList([a, r])


# split_before(s, sep) = s.split(sep)[0]   split_after(s, sep) = s.split(sep, 1)[1]   (when sep occurs in s)
SPLIT_BEFORE = z3.Function('split_before', z3.StringSort(), z3.StringSort(), z3.StringSort())
SPLIT_AFTER = z3.Function('split_after', z3.StringSort(), z3.StringSort(), z3.StringSort())


def nosep_re(sep):
    cp = ord(sep)
    rs = []
    if cp > 0:
        rs.append((0, cp - 1))
    rs.append((cp + 1, Z3_MAXCHAR))
    return z3.Star(_ranges_to_re(rs))


def concat_str(I, parts):
    if all(isinstance(p, str) for p in parts):
        return ''.join(parts)
    ts = []
    for p in parts:
        if isinstance(p, str):
            if p:
                ts.append(z3.StringVal(p))
        elif is_sym(p) and p.k == 'str':
            ts.append(p.t)
        else:
            ts.append(I.ctx.fresh('text', 'str').t)
    if len(ts) == 1:
        return mk(ts[0], 'str')
    return mk(z3.Concat(*ts), 'str')


def format_value(I, v, conversion, spec):
    if not is_sym(v) and not isinstance(v, (PObj, PList, PDict, PSet, JsonText, Foreign, Opaque, tuple)) \
            and not is_sym(spec):
        try:
            if conversion == ord('r'):
                v = repr(v)
            elif conversion == ord('s'):
                v = str(v)
            return format(v, spec)
        except (ValueError, TypeError) as e:
            I.raise_(type(e), str(e))
    if (spec == '' or spec is None) and conversion in (-1, ord('s')):
        if is_sym(v) and v.k in ('str', 'int', 'bool'):
            return to_str(I, v)
        if isinstance(v, PObj) and issubclass(v.cls, BaseException):
            return I.ctx.fresh('text', 'str')
    # formatting of structured / unknown values: text is opaque, formatting assumed total (see DESIGN 2.1)
    I.ctx.trust('f-string formatting of non-scalar or format-spec values: result text opaque, assumed not to raise')
    return I.ctx.fresh('text', 'str')


# ------------------------------------------------------------------------------------------- containers
def getitem(I, c, k):
    if isinstance(c, AnyVal):
        return I.any_op(f'{c.label}[...]')
    if isinstance(c, PDict):
        k = I._key(k, c)
        if type(c).__name__ == 'PDefaultDict' and not I.dict_present(c, k):
            if c.factory is None:
                I.raise_(KeyError, k)
            v = I.call(c.factory, [], {})
            I.dict_set(c, k, v)
            return v
        if I.ctx.guards and k in c.e and c.e[k][0] is not True:
            # read under a guard of an entry with symbolic presence: value is meaningful only where present
            return c.e[k][1]
        return I.dict_get(c, k)
    if isinstance(c, (PList, tuple)):
        items = c.items if isinstance(c, PList) else c
        if is_sym(k):
            if k.k == 'U':
                k = narrow(I, k)
            if is_sym(k):
                n = len(items)
                conds = [k.t == i for i in range(n)] + [k.t == i - n for i in range(n)]
                oob = z3.Or(k.t >= n, k.t < -n)
                j = I.ctx.choose(conds + [oob])
                if j < 2 * n:
                    return items[j % n]
                I.raise_(IndexError, 'list index out of range')
        if isinstance(k, bool) or not isinstance(k, int):
            I.raise_(TypeError, 'list indices must be integers')
        try:
            return items[k]
        except IndexError:
            I.raise_(IndexError, 'list index out of range')
    if isinstance(c, str):
        if is_sym(k):
            raise Unsupported('str index symbolic')
        try:
            return c[k]
        except IndexError:
            I.raise_(IndexError, 'string index out of range')
    if is_sym(c) and c.k == 'str':
        if is_sym(k) or k < 0:
            raise Unsupported('symbolic string index')
        if not I.ctx.branch(mk(z3.Length(c.t) > k, 'bool')):
            I.raise_(IndexError, 'string index out of range')
        return mk(z3.SubString(c.t, k, 1), 'str')
    if isinstance(c, PObj):
        m = I.find_method(c.cls, '__getitem__')
        if m is not None:
            return I.call(m, [c, k], {})
        I.raise_(TypeError, 'object is not subscriptable')
    if isinstance(c, type) and issubclass(c, enum.Enum):
        if is_sym(k):
            raise Unsupported('Enum[...] with symbolic name')
        try:
            return c[k]
        except KeyError:
            I.raise_(KeyError, k)
    if c is None:
        I.raise_(TypeError, "'NoneType' object is not subscriptable")
    if hasattr(c, '__pyvc_getitem__'):
        return c.__pyvc_getitem__(I, k)
    raise Unsupported(f'subscript of {type(c).__name__}')


def getslice(I, c, lo, hi, st):
    if any(is_sym(x) for x in (lo, hi, st)):
        raise Unsupported('symbolic slice bound')
    if isinstance(c, PList):
        return PList(c.items[lo:hi:st])
    if isinstance(c, (tuple, str)):
        return c[lo:hi:st]
    if is_sym(c) and c.k == 'str':
        if st is not None:
            raise Unsupported('stepped slice of symbolic string')
        n = z3.Length(c.t)

        def norm(x, dflt):
            if x is None:
                return dflt
            if x >= 0:
                return z3.If(n < x, n, z3.IntVal(x))
            return z3.If(n + x < 0, z3.IntVal(0), n + x)
        a = norm(lo, z3.IntVal(0))
        b = norm(hi, n)
        return mk(z3.If(b > a, z3.SubString(c.t, a, b - a), z3.StringVal('')), 'str')
    raise Unsupported(f'slice of {type(c).__name__}')


def setitem(I, c, k, v):
    if isinstance(c, AnyVal):
        I.any_op(f'{c.label}[...]=', result=False)
        return
    if isinstance(c, PDict):
        return I.dict_set(c, k, v)
    if isinstance(c, PList):
        if I.ctx.guards:
            raise _interp_mod().CannotConvert()
        if is_sym(k):
            raise Unsupported('list store at symbolic index')
        try:
            c.items[k] = v
            I.ctx.mutations += 1
        except IndexError:
            I.raise_(IndexError, 'list assignment index out of range')
        return
    if isinstance(c, PObj):
        m = I.find_method(c.cls, '__setitem__')
        if m is not None:
            return I.call(m, [c, k, v], {})
    if hasattr(c, '__pyvc_setitem__'):
        return c.__pyvc_setitem__(I, k, v)
    raise Unsupported(f'item assignment on {type(c).__name__}')


def delitem(I, c, k):
    if isinstance(c, PDict):
        I.dict_pop(c, k)
        return
    if isinstance(c, PList):
        if is_sym(k):
            raise Unsupported('del list[symbolic]')
        try:
            del c.items[k]
            c.version += 1
            I.ctx.mutations += 1
        except IndexError:
            I.raise_(IndexError, 'list index out of range')
        return
    if hasattr(c, '__pyvc_delitem__'):
        return c.__pyvc_delitem__(I, k)
    raise Unsupported(f'del item on {type(c).__name__}')


def contains(I, c, x):
    if isinstance(c, AnyVal):
        I.any_op(f'in {c.label}', result=False)
        return I.ctx.fresh('anybool', 'bool')
    if isinstance(c, PDict):
        if is_sym(x) or any(is_sym(kk) for kk in c.e):
            return sym_or(*[sym_and(I.py_eq(x, kk), True if c.e[kk][0] is True else Sym(c.e[kk][0], 'bool')) for kk in c.e])
        k = I._key(x)
        if k not in c.e:
            return False
        g = c.e[k][0]
        return True if g is True else Sym(g, 'bool')
    if isinstance(c, DictView):
        if c.kind == 'keys':
            return contains(I, c.d, x)
        if c.kind == 'values':
            return sym_or(*[I.py_eq(x, c.d.e[k][1]) for k in I.dict_keys_now(c.d)])
        raise Unsupported('in dict.items()')
    if isinstance(c, (PList, tuple, PSet)):
        items = c if isinstance(c, tuple) else c.items
        if isinstance(c, PSet) and isinstance(x, (PList, PDict, PSet)):
            I.raise_(TypeError, 'unhashable type')
        return sym_or(*[identity_or_eq(I, x, y) for y in items])
    if isinstance(c, str) or is_sym(c) and c.k == 'str':
        if not (isinstance(x, str) or is_sym(x) and x.k == 'str'):
            if is_sym(x) and x.k == 'U':
                raise Unsupported('universal in str')
            I.raise_(TypeError, "'in <string>' requires string as left operand")
        if isinstance(c, str) and isinstance(x, str):
            return x in c
        return mk(z3.Contains(z3_of(c), z3_of(x)), 'bool')
    if isinstance(c, type) and issubclass(c, enum.Enum):
        if is_sym(x):
            raise Unsupported('symbolic in Enum')
        return x in c
    if isinstance(c, enum.Flag) and isinstance(x, enum.Flag):
        return x in c          # concrete flag values: the real enum.Flag.__contains__
    if isinstance(c, PObj):
        m = I.find_method(c.cls, '__contains__')
        if m is not None:
            return I.truthy(I.call(m, [c, x], {}))
        m = I.find_method(c.cls, '__iter__')
        if m is not None:
            return sym_or(*[identity_or_eq(I, x, y) for y in I.iterate(c)])
    if hasattr(c, '__pyvc_contains__'):
        return c.__pyvc_contains__(I, x)
    if c is None:
        I.raise_(TypeError, "argument of type 'NoneType' is not iterable")
    raise Unsupported(f'`in` on {type(c).__name__}')


def identity_or_eq(I, x, y):
    if x is y and not is_sym(x):
        return True
    return I.py_eq(x, y)


# ------------------------------------------------------------------------------------------- arithmetic
def arith(I, op, a, b):
    if is_sym(a) and a.k == 'U':
        a = narrow(I, a)
    if is_sym(b) and b.k == 'U':
        b = narrow(I, b)
    ka, kb = kind_of(a), kind_of(b)
    if not is_sym(a) and not is_sym(b) and ka != 'obj' and kb != 'obj':
        try:
            return _native_arith(op, a, b)
        except ZeroDivisionError as e:
            I.raise_(ZeroDivisionError, str(e))
        except TypeError as e:
            I.raise_(TypeError, str(e))
    if ka in NUM and kb in NUM:
        k = 'real' if 'real' in (ka, kb) else 'int'
        x, y = z3_of(a, k), z3_of(b, k)
        if isinstance(op, ast.Add):
            return mk(x + y, k)
        if isinstance(op, ast.Sub):
            return mk(x - y, k)
        if isinstance(op, ast.Mult):
            return mk(x * y, k)
        if isinstance(op, (ast.FloorDiv, ast.Mod)) and k == 'int':
            if not I.ctx.branch(mk(y != 0, 'bool')):
                I.raise_(ZeroDivisionError, 'integer division or modulo by zero')
            # python floor semantics; z3 div/mod are euclidean: equal for positive divisors
            if not I.ctx.valid(y > 0):
                q = z3.If(y > 0, x / y, -((-x) / (-y)) if False else (x / y))
                raise Unsupported('floor division by a possibly negative symbolic divisor')
            return mk(x / y if isinstance(op, ast.FloorDiv) else x % y, 'int')
        if isinstance(op, ast.Div):
            if not I.ctx.branch(mk(y != 0, 'bool')):
                I.raise_(ZeroDivisionError, 'division by zero')
            return mk(z3_of(a, 'real') / z3_of(b, 'real'), 'real')
        if isinstance(op, ast.Pow) and not is_sym(b) and isinstance(b, int) and 0 <= b <= 4:
            r = z3.IntVal(1) if k == 'int' else z3.RealVal(1)
            for _ in range(b):
                r = r * x
            return mk(r, k)
        raise Unsupported(f'arithmetic {type(op).__name__} on symbolic numbers')
    strish = lambda v, k: k in ('str', 'atom') or isinstance(v, JsonText)
    if isinstance(op, ast.Add) and strish(a, ka) and strish(b, kb):
        return concat_str(I, [a, b])
    if isinstance(op, ast.Add) and isinstance(a, PList) and isinstance(b, PList):
        return PList(a.items + b.items)
    if isinstance(op, ast.Add) and isinstance(a, tuple) and isinstance(b, tuple):
        return a + b
    if isinstance(op, ast.Mod) and ka == 'str':
        I.ctx.trust('%-formatting: result text opaque')
        return I.ctx.fresh('text', 'str')
    if isinstance(op, ast.Mult) and isinstance(a, PList) and isinstance(b, int):
        return PList(a.items * b)
    if isinstance(op, (ast.BitOr, ast.BitAnd, ast.Sub)) and isinstance(a, PSet) and isinstance(b, PSet):
        return set_method(I, a, {ast.BitOr: 'union', ast.BitAnd: 'intersection', ast.Sub: 'difference'}[type(op)], [b], {})
    if isinstance(op, (ast.BitOr, ast.BitAnd)) and isinstance(a, enum.Enum):
        return _native_arith(op, a, b)
    # type errors of the language itself
    I.raise_(TypeError, f'unsupported operand type(s) for {type(op).__name__}: {describe(a)} and {describe(b)}')


def describe(v):
    if is_sym(v):
        return v.k
    if isinstance(v, PObj):
        return v.cls.__name__
    return type(v).__name__


def _native_arith(op, a, b):
    import operator as o
    f = {ast.Add: o.add, ast.Sub: o.sub, ast.Mult: o.mul, ast.Div: o.truediv, ast.FloorDiv: o.floordiv, ast.Mod: o.mod,
         ast.Pow: o.pow, ast.BitOr: o.or_, ast.BitAnd: o.and_, ast.BitXor: o.xor, ast.LShift: o.lshift,
         ast.RShift: o.rshift}[type(op)]
    return f(a, b)


def order(I, name, a, b):
    if is_sym(a) and a.k == 'U':
        a = narrow(I, a)
    if is_sym(b) and b.k == 'U':
        b = narrow(I, b)
    ka, kb = kind_of(a), kind_of(b)
    import operator as o
    f = {'__lt__': o.lt, '__le__': o.le, '__gt__': o.gt, '__ge__': o.ge}[name]
    if not is_sym(a) and not is_sym(b) and ka != 'obj' and kb != 'obj':
        try:
            return f(a, b)
        except TypeError as e:
            I.raise_(TypeError, str(e))
    if ka in NUM and kb in NUM:
        k = 'real' if 'real' in (ka, kb) else 'int'
        return mk(f(z3_of(a, k), z3_of(b, k)), 'bool')
    if ka == 'str' and kb == 'str':
        x, y = z3_of(a), z3_of(b)
        return mk({'__lt__': x < y, '__le__': x <= y, '__gt__': y < x, '__ge__': y <= x}[name], 'bool')
    if isinstance(a, (PList, tuple)) and isinstance(b, (PList, tuple)) and type(a) is type(b):
        raise Unsupported('ordering of sequences')
    I.raise_(TypeError, f"'{name}' not supported between instances of {describe(a)} and {describe(b)}")


# =========================================================================================== json
def fully_concrete(v, seen=None):
    if is_sym(v) or isinstance(v, (Foreign, Opaque, Closure, BoundMethod)):
        return False
    if isinstance(v, JsonText):
        return False
    if isinstance(v, PGenList):
        return False
    if isinstance(v, PList):
        return all(fully_concrete(x) for x in v.items)
    if isinstance(v, tuple):
        return all(fully_concrete(x) for x in v)
    if isinstance(v, PSet):
        return all(fully_concrete(x) for x in v.items)
    if isinstance(v, PDict):
        return all(not is_sym(k) for k in v.e) and all(g is True and fully_concrete(x) for g, x in v.e.values())
    if isinstance(v, PObj):
        return False
    return True


def reify_concrete(v):
    if isinstance(v, PList):
        return [reify_concrete(x) for x in v.items]
    if isinstance(v, tuple):
        return tuple(reify_concrete(x) for x in v)
    if isinstance(v, PSet):
        return set(reify_concrete(x) for x in v.items)
    if isinstance(v, PDict):
        return {k: reify_concrete(x) for k, (g, x) in v.e.items()}
    return v


def json_snapshot(I, v, encoder=None):
    """deep copy of a JSON-serialisable value; raises TypeError (python level) on anything else.  `encoder`: a JSONEncoder
    subclass whose default() (real code, interpreted) converts the objects json does not know"""
    if v is None or isinstance(v, (bool, int, float, str)) and not isinstance(v, enum.Enum):
        return v
    if encoder is not None and (isinstance(v, PObj) or isinstance(v, enum.Enum) and not isinstance(v, (int, str))
                                or type(v).__module__ == 'datetime'):
        dflt = encoder.__dict__.get('default')
        if dflt is None:
            I.raise_(TypeError, f'Object of type {describe(v)} is not JSON serializable')
        return json_snapshot(I, I.call(dflt, [PObj(encoder), v], {}), encoder)
    if isinstance(v, enum.Enum):
        if isinstance(v, (int, str)):
            return v
        I.raise_(TypeError, 'Object of type Enum is not JSON serializable')
    if is_sym(v):
        return v
    if isinstance(v, JsonText):
        return v
    if isinstance(v, PGenList):
        if kind_of(v.gen) != 'str':
            raise Unsupported('json of a list of unknown length whose elements are not strings')
        return PGenList(v.n, v.gen, v.new_elem, core=v.core)       # immutable: a copy is the same sequence of strings
    if isinstance(v, (PList, tuple)):
        return PList([json_snapshot(I, x, encoder) for x in (v.items if isinstance(v, PList) else v)])
    if isinstance(v, PDict):
        d = PDict()
        for k, (g, x) in v.e.items():
            if not isinstance(k, (str, int, float, bool, type(None))) and not (is_sym(k) and k.k in ('str', 'atom')):
                I.raise_(TypeError, 'keys must be str, int, float, bool or None')
            d.e[k] = [g, json_snapshot(I, x, encoder)]
        return d
    I.raise_(TypeError, f'Object of type {describe(v)} is not JSON serializable')


@model(json.dumps)
def m_json_dumps(I, args, kw):
    v = args[0]
    if hasattr(v, 'pyvc_json_dumps'):
        return v.pyvc_json_dumps(I, kw)
    extra = set(kw) - {'skipkeys', 'sort_keys', 'indent', 'cls'}
    if extra:
        raise Unsupported(f'json.dumps options {extra}')
    sort_keys = bool(kw.get('sort_keys', False))
    snap = json_snapshot(I, v, kw.get('cls'))
    if fully_concrete(snap):
        return json.dumps(reify_concrete(snap), sort_keys=sort_keys, indent=kw.get('indent'))
    I.ctx.trust('json.dumps/json.loads: assumed mutually inverse on JSON-safe values (str keys; None/bool/int/float/str/'
                'list/dict values; tuples decode as lists); dumps(sort_keys=True) assumed canonical (a function of content)')
    if isinstance(snap, PDict):
        for k in snap.e:
            if not isinstance(k, str) and not (is_sym(k) and k.k in ('str', 'atom')):
                raise Unsupported('json.dumps of a dict with non-string keys')
    return JsonText(snap, sort_keys)


def json_copy(v, sort_keys=False):
    """the value json.loads gives back; with sort_keys the text lists the keys in sorted order, and so does the decoded dict"""
    if isinstance(v, PGenList):
        return PGenList(v.n, v.gen, v.new_elem, core=v.core)
    if isinstance(v, PList):
        return PList([json_copy(x, sort_keys) for x in v.items])
    if isinstance(v, PDict):
        d = PDict()
        ks = list(v.e.keys())
        if sort_keys and all(isinstance(k, str) for k in ks):
            ks = sorted(ks)
        for k in ks:
            g, x = v.e[k]
            d.e[k] = [g, json_copy(x, sort_keys)]
        return d
    return v


@model(json.loads)
def m_json_loads(I, args, kw):
    s = args[0]
    if kw:
        raise Unsupported('json.loads options')
    if isinstance(s, JsonText):
        return json_copy(s.value, s.sort_keys)
    if type(s).__name__ == 'GraphText':
        from .iomodel import json_loads_hook
        return json_loads_hook(I, s)
    if isinstance(s, str):
        try:
            return I.lift(json.loads(s))
        except json.JSONDecodeError as e:
            raise _interp_mod().PyRaise(PObj(json.JSONDecodeError, {'args': (str(e),)}))
    if is_sym(s) and s.k == 'U':
        s = narrow(I, s)
    if is_sym(s) and s.k == 'str':
        # arbitrary text: either not JSON (JSONDecodeError) or some JSON value nobody may look into
        I.ctx.trust('json.loads(arbitrary text): raises JSONDecodeError iff not json_valid(text), else returns json_value(text) '
                    '(both uninterpreted functions of the text)')
        if not I.ctx.branch(mk(JSON_VALID(s.t), 'bool')):
            raise _interp_mod().PyRaise(PObj(json.JSONDecodeError, {'args': ('invalid',)}))
        return mk(JSON_VALUE(s.t), 'U')
    I.raise_(TypeError, 'the JSON object must be str, bytes or bytearray')


JSON_VALID = z3.Function('json_valid', z3.StringSort(), z3.BoolSort())
JSON_VALUE = z3.Function('json_value', z3.StringSort(), V)


def jsontext_len(I, jt):
    if not hasattr(jt, 'len_sym'):
        n = I.ctx.fresh('jsonlen', 'int')
        I.ctx.assume(n.t >= 2)
        jt.len_sym = n
        I.ctx.trust('len(json text of a symbolic value): uninterpreted integer >= 2')
    return jt.len_sym


def jsontext_eq(I, a, b):
    if isinstance(a, JsonText) and isinstance(b, JsonText):
        if a.sort_keys != b.sort_keys:
            raise Unsupported('comparison of json texts with different key ordering')
        return json_value_eq(I, a.value, b.value, a.sort_keys)
    jt, other = (a, b) if isinstance(a, JsonText) else (b, a)
    if isinstance(other, str):
        first = '{' if isinstance(jt.value, PDict) else '[' if isinstance(jt.value, PList) else None
        if first is None or not other.startswith(first):
            if first is not None:
                return False
            raise Unsupported('json text of a scalar compared with a string')
        raise Unsupported('json text compared with a concrete json-looking string')
    if other is None or isinstance(other, (int, float, bool)):
        return False
    raise Unsupported('json text compared with symbolic string')


def json_value_eq(I, a, b, sorted_keys):
    """equality of the *texts* of two json values = same structure, same keys (and order unless sorted), values
    equal and of the same json type (1, 1.0 and true print differently)"""
    if isinstance(a, PDict) and isinstance(b, PDict):
        keys = list(a.e.keys()) + [k for k in b.e.keys() if k not in a.e]
        conj = []
        for k in keys:
            ga = a.e[k][0] if k in a.e else False
            gb = b.e[k][0] if k in b.e else False
            za = z3.BoolVal(ga) if isinstance(ga, bool) else ga
            zb = z3.BoolVal(gb) if isinstance(gb, bool) else gb
            conj.append(mk(za == zb, 'bool'))
            if k in a.e and k in b.e:
                ve = json_value_eq(I, a.e[k][1], b.e[k][1], sorted_keys)
                conj.append(sym_or(sym_not(mk(za, 'bool')), ve))
        if not sorted_keys:
            ka = [k for k in a.e]
            kb = [k for k in b.e]
            common_a = [k for k in ka if k in b.e]
            common_b = [k for k in kb if k in a.e]
            if common_a != common_b:
                raise Unsupported('json text equality with differing key order')
        return sym_and(*conj)
    if isinstance(a, PGenList) or isinstance(b, PGenList):
        if isinstance(a, PGenList) and isinstance(b, PGenList) and a.core is b.core:
            return True
        if not isinstance(a, (PList, PDict)) and not is_sym(a) or not isinstance(b, (PList, PDict)) and not is_sym(b):
            return False
        raise Unsupported('json text equality between a list of unknown length and another list')
    if isinstance(a, PList) and isinstance(b, PList):
        if len(a.items) != len(b.items):
            return False
        return sym_and(*[json_value_eq(I, x, y, sorted_keys) for x, y in zip(a.items, b.items)])
    if isinstance(a, (PDict, PList)) or isinstance(b, (PDict, PList)):
        if is_sym(a) and a.k == 'U' or is_sym(b) and b.k == 'U':
            raise Unsupported('json text equality: container vs universal')
        return False
    return same_json_scalar(a, b)


def same_json_scalar(a, b):
    ka, kb = kind_of(a), kind_of(b)
    if ka == 'U' or kb == 'U':
        ua, ub = to_U(a), to_U(b)
        return mk(ua == ub, 'bool')
    if ka != kb:
        return False
    return py_eq_scalar(a, b)


# =========================================================================================== re
# ---- minterm abstraction of the non-ASCII part of the alphabet -------------------------------------------------------
# The verified code looks at strings only through: regex membership with the classes \d \w \s (and ASCII literals/ranges),
# length, comparison with ASCII constants, split on an ASCII separator and int().  All of these are invariant under the map
# that sends every non-ASCII code point to the representative of its block, where blocks are the equivalence classes of
# (is \d, is \w, is \s) computed WITH THE REAL re ENGINE over all code points.  So it is sound (and complete) to let symbolic
# strings range over  ASCII + one representative per block;  large Unicode classes then become a handful of ranges
# (z3 answered `unknown`/hung on the 746 ranges of \w).
_ABS = None


def abs_alphabet():
    global _ABS
    if _ABS is not None:
        return _ABS
    rd, rw, rs = _re.compile(r'\d'), _re.compile(r'\w'), _re.compile(r'\s')
    blocks = {}
    for cp in range(128, 0x110000):
        if 0xD800 <= cp <= 0xDFFF:
            continue
        c = chr(cp)
        sig = (rd.match(c) is not None, rw.match(c) is not None, rs.match(c) is not None)
        if sig not in blocks and cp <= Z3_MAXCHAR:
            blocks[sig] = cp
        elif sig not in blocks:
            raise Unsupported(f'unicode block {sig} has no representative <= U+2FFFF')
    ascii_sig = {}
    for cp in range(128):
        c = chr(cp)
        ascii_sig[cp] = (rd.match(c) is not None, rw.match(c) is not None, rs.match(c) is not None)
    _ABS = dict(blocks=blocks, ascii=ascii_sig)
    return _ABS


Z3_MAXCHAR = 0x2FFFF


def abs_map(s):
    """the abstraction map on concrete strings: non-ASCII code points -> representative of their block"""
    A = abs_alphabet()
    rd, rw, rs = _re.compile(r'\d'), _re.compile(r'\w'), _re.compile(r'\s')
    out = []
    for c in s:
        if ord(c) < 128:
            out.append(c)
        else:
            sig = (rd.match(c) is not None, rw.match(c) is not None, rs.match(c) is not None)
            out.append(chr(A['blocks'][sig]))
    return ''.join(out)


def abs_alphabet_re():
    A = abs_alphabet()
    return z3.Star(_ranges_to_re(_merge([(0, 127)] + [(cp, cp) for cp in A['blocks'].values()])))


def _class_ranges(pred_name):
    """code points of a unicode category in the abstract alphabet (ASCII exactly + block representatives)"""
    A = abs_alphabet()
    idx = {'digit': 0, 'word': 1, 'space': 2}[pred_name]
    pts = [cp for cp, sig in A['ascii'].items() if sig[idx]] + [cp for sig, cp in A['blocks'].items() if sig[idx]]
    return _merge([(cp, cp) for cp in pts])


def _zch(cp):
    return z3.StringVal(chr(cp)) if cp < 0x80 and chr(cp).isprintable() and chr(cp) not in '\\"' else z3.Unit(z3.CharVal(cp))


def _zrange(lo, hi):
    if lo == hi:
        return z3.Re(_zch(lo))
    return z3.Range(_zch(lo), _zch(hi))


def _union(rs):
    rs = list(rs)
    if not rs:
        return z3.Empty(z3.ReSort(z3.StringSort()))
    if len(rs) == 1:
        return rs[0]
    return z3.Union(*rs)


def _ranges_to_re(ranges):
    return _union(_zrange(a, b) for a, b in ranges)


def _abs_points():
    A = abs_alphabet()
    return _merge([(0, 127)] + [(cp, cp) for cp in A['blocks'].values()])


def _negate(ranges):
    """complement inside the abstract alphabet"""
    inside = set()
    for a, b in ranges:
        inside.update(range(a, b + 1))
    pts = []
    for a, b in _abs_points():
        pts.extend(cp for cp in range(a, b + 1) if cp not in inside)
    return _merge([(cp, cp) for cp in pts])


def _merge(ranges):
    out = []
    for a, b in sorted(ranges):
        if out and a <= out[-1][1] + 1:
            out[-1] = (out[-1][0], max(out[-1][1], b))
        else:
            out.append((a, b))
    return out


def _category_ranges(cat, ascii_only):
    name = str(cat)
    base = {'CATEGORY_DIGIT': 'digit', 'CATEGORY_WORD': 'word', 'CATEGORY_SPACE': 'space'}
    neg = {'CATEGORY_NOT_DIGIT': 'digit', 'CATEGORY_NOT_WORD': 'word', 'CATEGORY_NOT_SPACE': 'space'}
    if name in base:
        r = _class_ranges(base[name])
        if ascii_only:
            r = [(a, min(b, 127)) for a, b in r if a <= 127]
        return r
    if name in neg:
        r = _class_ranges(neg[name])
        if ascii_only:
            r = [(a, min(b, 127)) for a, b in r if a <= 127]
        return _negate(r)
    raise Unsupported(f'regex category {name}')


def regex_to_z3(pattern, flags, mode):
    """CPython regex -> z3 regex such that  re.<mode>(pattern, s) is not None  <=>  s in result.
    mode: 'match' (prefix match) | 'fullmatch'.   AT_END ($) = end of string or just before a final newline."""
    from re import _parser as P
    if flags & ~(_re.ASCII):
        raise Unsupported(f'regex flags {flags}')
    ascii_only = bool(flags & _re.ASCII)
    parsed = P.parse(pattern, flags)
    if parsed.state.flags & (_re.IGNORECASE | _re.MULTILINE | _re.DOTALL | _re.VERBOSE):
        raise Unsupported('regex inline flags')
    sigma_star = z3.Full(z3.ReSort(z3.StringSort()))
    eps = z3.Re(z3.StringVal(''))
    tail0 = sigma_star if mode == 'match' else eps

    def cls(items):
        ranges = []
        negate = False
        for op, av in items:
            op = str(op)
            if op == 'NEGATE':
                negate = True
            elif op == 'LITERAL':
                if av > 127:
                    raise Unsupported('non-ASCII literal in a regex class')
                ranges.append((av, av))
            elif op == 'RANGE':
                if av[1] > 127:
                    raise Unsupported('non-ASCII range in a regex class')
                ranges.append((av[0], av[1]))
            elif op == 'CATEGORY':
                ranges.extend(_category_ranges(av, ascii_only))
            else:
                raise Unsupported(f'regex class item {op}')
        ranges = _merge(ranges)
        if negate:
            ranges = _negate(ranges)
        return _ranges_to_re(ranges)

    def seq(items, tail, at_start):
        """regex for items followed by `tail`"""
        items = list(items)
        if not items:
            return tail
        (op, av), rest = items[0], items[1:]
        op = str(op)
        if op == 'AT':
            name = str(av)
            if name in ('AT_BEGINNING', 'AT_BEGINNING_STRING'):
                if not at_start:
                    raise Unsupported('^ not at the beginning')
                return seq(rest, tail, True)
            if name in ('AT_END', 'AT_END_STRING'):
                if rest:
                    raise Unsupported('$ not at the end')
                if tail is not tail0:
                    raise Unsupported('$ inside a group')
                if name == 'AT_END' and mode == 'match':
                    return z3.Option(z3.Re(z3.StringVal('\n')))
                return eps
            raise Unsupported(f'regex anchor {name}')
        if op == 'BRANCH':
            if any(_has_anchor(alt) for alt in av[1]):
                return _union(seq(list(alt) + rest, tail, at_start) for alt in av[1])
            return _concat(_union(plain(alt) for alt in av[1]), seq(rest, tail, False))
        if op == 'SUBPATTERN':
            sub = av[3]
            if _has_anchor(sub):
                return seq(list(sub) + rest, tail, at_start)
            return _concat(plain(sub), seq(rest, tail, False))
        return _concat(one(op, av), seq(rest, tail, False))

    def _concat(a, b):
        if b is eps:
            return a
        return z3.Concat(a, b)

    def plain(items):
        """regex of items without anchors"""
        parts = []
        for op, av in items:
            op = str(op)
            if op == 'BRANCH':
                parts.append(_union(plain(alt) for alt in av[1]))
            elif op == 'SUBPATTERN':
                parts.append(plain(av[3]))
            elif op == 'AT':
                raise Unsupported('anchor inside repetition / group')
            else:
                parts.append(one(op, av))
        if not parts:
            return eps
        if len(parts) == 1:
            return parts[0]
        return z3.Concat(*parts)

    def one(op, av):
        if op == 'LITERAL':
            if av > 127:
                raise Unsupported('non-ASCII literal in a regex')
            return z3.Re(_zch(av))
        if op == 'NOT_LITERAL':
            return _ranges_to_re(_negate([(av, av)]))
        if op == 'ANY':
            return _ranges_to_re(_negate([(10, 10)]))
        if op == 'IN':
            return cls(av)
        if op in ('MAX_REPEAT', 'MIN_REPEAT'):
            lo, hi, sub = av
            r = plain(sub)
            if str(hi) == 'MAXREPEAT':
                if lo == 0:
                    return z3.Star(r)
                if lo == 1:
                    return z3.Plus(r)
                return z3.Concat(z3.Loop(r, lo, lo), z3.Star(r))
            return z3.Loop(r, lo, hi)
        if op == 'CATEGORY':
            return _ranges_to_re(_category_ranges(av, ascii_only))
        raise Unsupported(f'regex op {op}')

    def _has_anchor(items):
        for op, av in items:
            op = str(op)
            if op == 'AT':
                return True
            if op == 'BRANCH' and any(_has_anchor(a) for a in av[1]):
                return True
            if op == 'SUBPATTERN' and _has_anchor(av[3]):
                return True
        return False

    return seq(list(parsed), tail0, True)


_REGEX_CACHE = {}


def re_match(I, pattern, flags, s, mode):
    if mode not in ('match', 'fullmatch'):
        raise Unsupported(f're.{mode}')
    if is_sym(pattern):
        raise Unsupported('symbolic regex pattern')
    if is_sym(s) and s.k == 'U':
        s = narrow(I, s)
    if isinstance(s, str):
        m = getattr(_re, mode)(pattern, s, flags)
        return None if m is None else Opaque(truthy=True)
    if not (is_sym(s) and s.k == 'str'):
        I.raise_(TypeError, 'expected string or bytes-like object')
    key = (pattern, flags, mode)
    if key not in _REGEX_CACHE:
        _REGEX_CACHE[key] = regex_to_z3(pattern, flags, mode)
    I.ctx.trust("re: CPython pattern translated to an SMT regex from re._parser's own parse tree (match = prefix match, "
                "$ = end or before a final newline, \\d \\w \\s = the code points the real engine accepts, <= U+2FFFF)")
    I.ctx.trust('minterm abstraction: symbolic strings range over ASCII + one representative per (\\d,\\w,\\s)-block of the '
                'non-ASCII code points (blocks computed with the real re engine); sound because the code inspects strings only '
                'through such classes, ASCII literals, length, split on ASCII and int()')
    I.ctx.assume(z3.InRe(s.t, abs_alphabet_re()))
    if I.ctx.branch(mk(z3.InRe(s.t, _REGEX_CACHE[key]), 'bool')):
        return Opaque(truthy=True)
    return None


@model(_re.match)
def m_re_match(I, args, kw):
    flags = args[2] if len(args) > 2 else kw.get('flags', 0)
    return re_match(I, args[0], int(flags), args[1], 'match')


@model(_re.fullmatch)
def m_re_fullmatch(I, args, kw):
    flags = args[2] if len(args) > 2 else kw.get('flags', 0)
    return re_match(I, args[0], int(flags), args[1], 'fullmatch')


@model(_re.compile)
def m_re_compile(I, args, kw):
    if any(is_sym(a) for a in args):
        raise Unsupported('re.compile of symbolic pattern')
    return _re.compile(*args, **kw)


# =========================================================================================== uuid
import uuid as _uuid


@model(_uuid.uuid4)
def m_uuid4(I, args, kw):
    """a fresh identifier: a CONCRETE reserved string '@uuid<n>' -- different from every other identifier by construction
    (symbolic identifiers are assumed to lie outside the reserved range), so no solver reasoning is spent on freshness"""
    I.ctx.trust('uuid.uuid4(): a fresh string different from every identifier already in use and from every string constant of the program')
    n = I.ctx.counters.get('@uuid', 0)
    I.ctx.counters['@uuid'] = n + 1
    return f'@uuid{n}'


# =========================================================================================== with
def with_stmt(I, s, frame):
    """`with ctx() as name:` for modelled context managers (objects with pyvc_method / unknown values) and for user classes
    defining __enter__/__exit__ (python semantics: __exit__ runs on every exit; a truthy result swallows the exception)"""
    interp = _interp_mod()
    if len(s.items) != 1:
        raise Unsupported('with statement with several items')
    item = s.items[0]
    mgr = I.eval(item.context_expr, frame)

    def call_m(name, args):
        if isinstance(mgr, AnyVal):
            return I.any_op(f'{mgr.label}.{name}()')
        if hasattr(mgr, 'pyvc_method'):
            return mgr.pyvc_method(I, name, args, {})
        if isinstance(mgr, PObj):
            m = I.find_method(mgr.cls, name)
            if m is None:
                I.raise_(AttributeError, name)
            return I.call(m, [mgr] + args, {})
        raise Unsupported(f'context manager {type(mgr).__name__}')
    val = call_m('__enter__', [])
    if item.optional_vars is not None:
        I.assign(item.optional_vars, val, frame)
    try:
        I.exec_block(s.body, frame)
    except interp.PyRaise as pr:
        swallow = call_m('__exit__', [pr.exc.cls, pr.exc, None])
        if isinstance(swallow, AnyVal) or not I.ctx.branch(I.truthy(swallow)):
            raise
        return
    except (interp.ReturnSig, interp.BreakSig, interp.ContinueSig):
        call_m('__exit__', [None, None, None])
        raise
    call_m('__exit__', [None, None, None])


class GenContextManager:
    """what a @contextlib.contextmanager function returns: the generator body runs up to its single `yield` on __enter__ and
    is resumed (normal exit) or has the exception thrown in at the yield (exceptional exit) on __exit__.  Supported shapes of
    the generator body:  pre; yield; post   and   pre; try: a; yield; b  finally: f;  post   (handlers around the yield: not)."""

    def __init__(self, I, func, args, kwargs):
        from . import loader
        interp = _interp_mod()
        info = loader.func_info(func)
        node = info['node']
        self.frame = interp.Frame(func.__globals__, info['defcls'], None, func)
        defaults = [I.lift(d) for d in (func.__defaults__ or ())]
        kwdefaults = {k: I.lift(v) for k, v in (func.__kwdefaults__ or {}).items()}
        I.bind_args(node.args, self.frame, args, kwargs, defaults, kwdefaults, func.__name__)
        body = [st for st in node.body if not (isinstance(st, ast.Expr) and isinstance(st.value, ast.Constant))]

        def is_yield(st):
            return isinstance(st, ast.Expr) and isinstance(st.value, ast.Yield)
        self.pre, self.rest, self.final, self.post, self.yexpr = None, [], [], [], None
        for i, st in enumerate(body):
            if is_yield(st):
                self.pre, self.post, self.yexpr = body[:i], body[i + 1:], st.value.value
                break
            if isinstance(st, ast.Try) and not st.handlers and not st.orelse:
                js = [j for j, x in enumerate(st.body) if is_yield(x)]
                if js:
                    j = js[0]
                    self.pre, self.rest, self.final, self.post = body[:i] + st.body[:j], st.body[j + 1:], st.finalbody, body[i + 1:]
                    self.yexpr = st.body[j].value.value
                    self.pre_outside = body[:i]
                    break
        if self.pre is None:
            raise Unsupported(f'@contextmanager function {func.__qualname__}: yield not at the top level of the body / of a try-finally')
        if any(isinstance(n, (ast.Yield, ast.YieldFrom)) for st in self.pre + self.rest + self.final + self.post for n in ast.walk(st)):
            raise Unsupported(f'@contextmanager function {func.__qualname__}: more than one yield')
        self.in_try = bool(self.final)

    def pyvc_method(self, I, name, args, kw):
        interp = _interp_mod()
        if name == '__enter__':
            if self.in_try:
                n_out = len(self.pre_outside)
                I.exec_block(self.pre[:n_out], self.frame)
                try:
                    I.exec_block(self.pre[n_out:], self.frame)
                except interp.PyRaise:
                    I.exec_block(self.final, self.frame)
                    raise
            else:
                I.exec_block(self.pre, self.frame)
            return None if self.yexpr is None else I.eval(self.yexpr, self.frame)
        if name == '__exit__':
            exc = args[1] if len(args) > 1 else None
            if exc is None:
                if self.in_try:
                    try:
                        I.exec_block(self.rest, self.frame)
                    finally:
                        I.exec_block(self.final, self.frame)
                I.exec_block(self.post, self.frame)
                return False
            # the exception is raised inside the generator at the yield: only a finally clause around it runs
            if self.in_try:
                I.exec_block(self.final, self.frame)
            return False
        raise Unsupported(f'context manager method {name}')


# =========================================================================================== logging
import logging as _logging


@model(_logging.getLogger)
def m_get_logger(I, args, kw):
    return Foreign(None)


# =========================================================================================== operator module
import operator as _operator


def _op_model(astop):
    def m(I, args, kw):
        return I.binop(astop(), args[0], args[1])
    return m


for _f, _a in ((_operator.add, ast.Add), (_operator.sub, ast.Sub), (_operator.mul, ast.Mult), (_operator.floordiv, ast.FloorDiv),
               (_operator.mod, ast.Mod), (_operator.truediv, ast.Div)):
    _MODELS[_f] = _op_model(_a)


def _cmp_model(astop):
    def m(I, args, kw):
        return I.compare(astop(), args[0], args[1])
    return m


for _f, _a in ((_operator.lt, ast.Lt), (_operator.le, ast.LtE), (_operator.gt, ast.Gt), (_operator.ge, ast.GtE),
               (_operator.eq, ast.Eq), (_operator.ne, ast.NotEq)):
    _MODELS[_f] = _cmp_model(_a)


# =========================================================================================== dataclasses
import dataclasses as _dataclasses


@model(_dataclasses.is_dataclass)
def m_is_dataclass(I, args, kw):
    v = args[0]
    if isinstance(v, PObj):
        return _dataclasses.is_dataclass(v.cls)
    if isinstance(v, type):
        return _dataclasses.is_dataclass(v)
    return False


@model(_dataclasses.asdict)
def m_asdict(I, args, kw):
    def conv(v):
        if isinstance(v, PObj) and _dataclasses.is_dataclass(v.cls):
            d = PDict()
            for f in _dataclasses.fields(v.cls):
                if not I.dict_present(v.d, f.name):
                    # class-level default (the dataclass has a custom __init__ that may leave a field unset)
                    val = I.obj_getattr(v, f.name)
                else:
                    val = v.d.e[f.name][1]
                d.e[f.name] = [True, conv(val)]
            return d
        if isinstance(v, PList):
            return PList([conv(x) for x in v.items])
        if isinstance(v, tuple):
            return tuple(conv(x) for x in v)
        if isinstance(v, PDict):
            d = PDict()
            for k, (g, x) in v.e.items():
                d.e[k] = [g, conv(x)]
            return d
        return v
    return conv(args[0])


# =========================================================================================== threading
import threading as _threading
import _thread


@model(_threading.Lock, _thread.allocate_lock)
def m_lock(I, args, kw):
    return LockVal()


@model(builtins.filter)
def m_filter(I, args, kw):
    f, seq = args
    out = []
    for x in I.iterate(seq):
        keep = I.truthy(x) if f is None else I.truthy(I.call(f, [x], {}))
        if I.ctx.branch(keep):
            out.append(x)
    return PList(out)


@model(itertools.groupby)
def m_groupby(I, args, kw):
    """itertools.groupby(iterable, key=None): runs of CONSECUTIVE items with equal keys (as a list of (key, list) pairs)"""
    seq = list(I.iterate(args[0]))
    key = kw.get('key', args[1] if len(args) > 1 else None)
    ks = [x if key is None else I.call(key, [x], {}) for x in seq]
    out = []
    for i, (x, k) in enumerate(zip(seq, ks)):
        if i and I.ctx.branch(I.py_eq(k, ks[i - 1])):
            out[-1][1].items.append(x)
        else:
            out.append((k, PList([x])))
    return PList(out)


@model(builtins.map)
def m_map(I, args, kw):
    f = args[0]
    return PList([I.call(f, list(t), {}) for t in zip(*[list(I.iterate(a)) for a in args[1:]])])
