"""
pyvc.values -- value domain of the symbolic executor.

Concrete Python scalars (None, bool, int, float, str, tuple) are represented by themselves, so every
computation whose operands are known is carried out by CPython itself.  Unknown scalars are `Sym`
(z3 term + kind).  Heap objects are PObj / PList / PDict / PSet with Python identity = object identity.

The universal sort `V` is used for dynamically typed unknowns (a field that may hold None, an int, a float,
a string ...); operations on it are encoded as formulas over the constructor testers with exact CPython
semantics for `==`, truthiness and `is None` (bool is a subtype of int: True == 1, 0.0 == 0 ...).
"""
import z3

# ----------------------------------------------------------------------------------------------- sorts
_V = z3.Datatype('V')
_V.declare('none')
_V.declare('b', ('bv', z3.BoolSort()))
_V.declare('i', ('iv', z3.IntSort()))
_V.declare('f', ('fv', z3.RealSort()))
_V.declare('s', ('sv', z3.StringSort()))
_V.declare('a', ('av', z3.IntSort()))     # atom: a string only ever compared for equality / hashed
_V.declare('l', ('lv', z3.IntSort()))     # handle of a container value (list / dict) -- opaque
V = _V.create()

KINDS = ('int', 'bool', 'real', 'str', 'atom', 'U')


class Unsupported(Exception):
    """construct or operation outside the supported subset -> obligation undischarged, never skipped"""


class Sym:
    """symbolic scalar: z3 term `t` of kind `k`"""
    __slots__ = ('t', 'k')

    def __init__(self, t, k):
        assert k in KINDS, k
        self.t = t
        self.k = k

    def __repr__(self):
        return f'Sym<{self.k}:{self.t}>'

    def __bool__(self):
        raise Unsupported('python-level truth test of a symbolic value (engine bug: use ctx.branch)')

    __hash__ = object.__hash__

    # arithmetic / ordering sugar for contracts (never __eq__: Sym objects live in python containers)
    def _bin(self, other, f, kind=None):
        a, b, k = _num_common(self, other)
        return mk(f(a, b), kind or k)

    def __add__(self, o):
        return self._bin(o, lambda a, b: a + b)

    def __radd__(self, o):
        return self._bin(o, lambda a, b: b + a)

    def __sub__(self, o):
        return self._bin(o, lambda a, b: a - b)

    def __rsub__(self, o):
        return self._bin(o, lambda a, b: b - a)

    def __mul__(self, o):
        return self._bin(o, lambda a, b: a * b)

    def __neg__(self):
        return mk(-z3_of(self, 'int' if self.k != 'real' else 'real'), 'int' if self.k != 'real' else 'real')

    def __lt__(self, o):
        return self._bin(o, lambda a, b: a < b, 'bool')

    def __le__(self, o):
        return self._bin(o, lambda a, b: a <= b, 'bool')

    def __gt__(self, o):
        return self._bin(o, lambda a, b: a > b, 'bool')

    def __ge__(self, o):
        return self._bin(o, lambda a, b: a >= b, 'bool')


class Atom:
    """concrete atom (an abstract string constant identified by number) -- produced by reification only"""


def mk(t, k):
    t = z3.simplify(t) if not z3.is_const(t) else t
    if k == 'bool':
        if z3.is_true(t):
            return True
        if z3.is_false(t):
            return False
    elif k == 'int' and z3.is_int_value(t):
        return t.as_long()
    elif k == 'str' and z3.is_string_value(t):
        return decode_z3_string(t)
    return Sym(t, k)


def decode_z3_string(t):
    s = t.as_string()
    # z3 escapes non printable characters as \u{XXXX}
    out = []
    i = 0
    while i < len(s):
        if s.startswith('\\u{', i):
            j = s.index('}', i)
            out.append(chr(int(s[i + 3:j], 16)))
            i = j + 1
        else:
            out.append(s[i])
            i += 1
    return ''.join(out)


# ----------------------------------------------------------------------------------------------- heap
class PObj:
    """instance of a (real) class; fields live in a PDict so that obj.__dict__ aliases them"""

    def __init__(self, cls, fields=None):
        self.cls = cls
        self.d = fields if isinstance(fields, PDict) else PDict(fields or {})

    def __repr__(self):
        return f'PObj<{self.cls.__name__} {self.d!r}>'


class PList:
    def __init__(self, items=None):
        self.items = list(items or [])
        self.version = 0

    def __repr__(self):
        return f'PList{self.items!r}'


class PGenList(PList):
    """a list of UNKNOWN length n >= 0 (no bound) whose elements all satisfy the typing stated when it was created.
    It is never enumerated.  The engine knows one GENERIC element `gen` -- about which only facts that hold for EVERY
    element are ever assumed (and only under n > 0) -- and the WITNESS elements that the loop rule / `branch_all` introduce
    ("some element makes the loop body raise").  `forall x in L: P(x)` is then the formula  (n > 0 -> P(gen)) and P(w) for
    every witness w:  if it is entailed, P holds of an arbitrary element; if its negation is entailed, an actual element
    (gen ranges over all of them, the witnesses are elements) violates P.  Every other operation on such a list is outside
    the supported subset (`.items` raises Unsupported => UNDECIDED, never a verdict)."""

    def __init__(self, n, gen, new_elem, core=None):
        self.n = n                      # Sym int, n >= 0 assumed
        self.gen = gen                  # the generic element
        self.new_elem = new_elem        # () -> fresh element value satisfying the element typing
        self.core = core if core is not None else dict(wit=[], univ=[])   # shared by snapshots (the list is immutable)
        self.version = 0

    @property
    def wit(self):
        return self.core['wit']

    @property
    def univ(self):
        return self.core['univ']

    @property
    def dead(self):
        """a list that received an unknown prefix of another list (the copying loop raised): nothing is known of it"""
        return bool(self.core.get('dead'))

    @property
    def items(self):
        raise Unsupported('operation that enumerates a list of unknown length (outside the loop rule)')

    @items.setter
    def items(self, v):
        raise Unsupported('write to a list of unknown length')

    def __repr__(self):
        return f'PGenList<n={self.n!r} gen={self.gen!r} wit={self.wit!r}>'


class PSet:
    """set with concrete membership structure: list of distinct concrete hashables or heap identities"""

    def __init__(self, items=None):
        self.items = []
        for x in (items or []):
            if x not in self.items:
                self.items.append(x)
        self.version = 0

    def __repr__(self):
        return f'PSet{self.items!r}'


class PDict:
    """dict with concrete keys; every entry carries a presence guard (True or z3 Bool) and a value.
    Insertion order is kept (CPython semantics).  `version` counts structural changes so that iteration over
    a live view can detect 'changed size during iteration'."""

    def __init__(self, entries=None):
        self.e = {}
        for k, v in (entries or {}).items():
            self.e[k] = [True, v]
        self.version = 0

    def __repr__(self):
        return 'PDict{' + ', '.join(f'{k!r}{"" if g is True else "?"}: {v!r}' for k, (g, v) in self.e.items()) + '}'

    def has_symbolic_presence(self):
        return any(g is not True for g, _ in self.e.values())


class DictView:
    def __init__(self, d, kind):
        self.d = d
        self.kind = kind   # 'keys' | 'values' | 'items'


class JsonText:
    """the string json.dumps(value, sort_keys=sort_keys) for a structured symbolic value -- kept structured
    so that json.loads of it is the (assumed) inverse and equality of two texts is equality of content"""

    def __init__(self, value, sort_keys):
        self.value = value
        self.sort_keys = sort_keys

    def __repr__(self):
        return f'JsonText({self.value!r})'


class BoundMethod:
    def __init__(self, func, self_):
        self.func = func
        self.self_ = self_


class BuiltinMethod:
    """method of a modelled builtin container / string: (receiver, name)"""

    def __init__(self, recv, name):
        self.recv = recv
        self.name = name


class Closure:
    """function or lambda defined inside interpreted code"""

    def __init__(self, node, env, globs, defcls, name='<lambda>'):
        self.node = node
        self.env = env
        self.globs = globs
        self.defcls = defcls
        self.name = name


class SuperProxy:
    def __init__(self, cls, obj):
        self.cls = cls
        self.obj = obj


class Foreign:
    """opaque real object (logger, ...)"""

    def __init__(self, obj):
        self.obj = obj


class Opaque:
    """opaque result nobody may look into (e.g. result of a logging call, a regex match object)"""

    def __init__(self, truthy=None):
        self.truthy = truthy


# ----------------------------------------------------------------------------------------------- kinds
_ATOM_CODES = {}
_ATOM_STRS = {}


UUID_RANGE = -1_000_000


def atom_code(s):
    if s.startswith('@uuid') and s[5:].isdigit():
        return UUID_RANGE - 1 - int(s[5:])        # generated identifiers: a range no symbolic identifier can take
    if s not in _ATOM_CODES:
        c = -(len(_ATOM_CODES) + 1)
        _ATOM_CODES[s] = c
        _ATOM_STRS[c] = s
    return _ATOM_CODES[s]


def atom_str(n):
    if n < UUID_RANGE:
        return f'@uuid{UUID_RANGE - 1 - n}'
    return _ATOM_STRS.get(n, f'@atom{n}')


def kind_of(v):
    if isinstance(v, Sym):
        return v.k
    if v is None:
        return 'none'
    if isinstance(v, bool):
        return 'bool'
    if isinstance(v, int):
        return 'int'
    if isinstance(v, float):
        return 'real'
    if isinstance(v, str):
        return 'str'
    return 'obj'


def is_sym(v):
    return isinstance(v, Sym)


def z3_of(v, kind=None):
    """z3 term of a scalar value (Sym or concrete), optionally coerced to a numeric kind"""
    k = kind_of(v)
    if isinstance(v, Sym):
        t = v.t
    elif k == 'bool':
        t = z3.BoolVal(v)
    elif k == 'int':
        t = z3.IntVal(v)
    elif k == 'real':
        if v != v or v in (float('inf'), float('-inf')):
            raise Unsupported('non-finite float')
        from fractions import Fraction
        fr = Fraction(v)
        t = z3.RealVal(f'{fr.numerator}/{fr.denominator}')
    elif k == 'str':
        t = z3.StringVal(v)
    else:
        raise Unsupported(f'no z3 term for {v!r}')
    if kind is None or kind == k:
        return t
    if kind == 'int' and k == 'bool':
        return z3.If(t, z3.IntVal(1), z3.IntVal(0))
    if kind == 'real' and k == 'int':
        return z3.ToReal(t)
    if kind == 'real' and k == 'bool':
        return z3.ToReal(z3.If(t, z3.IntVal(1), z3.IntVal(0)))
    if kind == 'U':
        return to_U(v)
    raise Unsupported(f'cannot coerce {k} to {kind}')


def to_U(v):
    k = kind_of(v)
    if k == 'U':
        return v.t
    if k == 'none':
        return V.none
    if k == 'obj':
        raise Unsupported(f'heap value inside a universal scalar: {v!r}')
    t = z3_of(v)
    return {'bool': V.b, 'int': V.i, 'real': V.f, 'str': V.s, 'atom': V.a}[k](t)


NUM = ('int', 'bool', 'real')


def _num_common(a, b):
    ka, kb = kind_of(a), kind_of(b)
    k = 'real' if 'real' in (ka, kb) else 'int'
    return z3_of(a, k), z3_of(b, k), k


def u_is_num(u):
    return z3.Or(V.is_i(u), V.is_b(u), V.is_f(u))


def u_numval(u):
    """numeric value (as Real) of a numeric universal"""
    return z3.If(V.is_i(u), z3.ToReal(V.iv(u)),
                 z3.If(V.is_b(u), z3.If(V.bv(u), z3.RealVal(1), z3.RealVal(0)), V.fv(u)))


def py_eq_scalar(a, b):
    """CPython `a == b` for scalars (None/bool/int/float/str/atom/U), exact. Returns bool or Sym bool."""
    ka, kb = kind_of(a), kind_of(b)
    if not is_sym(a) and not is_sym(b):
        return a == b
    if ka == 'U' or kb == 'U':
        if ka != 'U':
            a, b, ka, kb = b, a, kb, ka
        u = a.t
        if kb == 'none':
            return mk(V.is_none(u), 'bool')
        if kb in NUM:
            return mk(z3.And(u_is_num(u), u_numval(u) == z3_of(b, 'real')), 'bool')
        if kb == 'str':
            return mk(z3.And(V.is_s(u), V.sv(u) == z3_of(b)), 'bool')
        if kb == 'atom':
            return mk(z3.And(V.is_a(u), V.av(u) == b.t), 'bool')
        if kb == 'U':
            w = b.t
            return mk(z3.Or(z3.And(V.is_none(u), V.is_none(w)),
                            z3.And(u_is_num(u), u_is_num(w), u_numval(u) == u_numval(w)),
                            z3.And(V.is_s(u), V.is_s(w), V.sv(u) == V.sv(w)),
                            z3.And(V.is_a(u), V.is_a(w), V.av(u) == V.av(w)),
                            z3.And(V.is_l(u), V.is_l(w), V.lv(u) == V.lv(w))), 'bool')
        return False
    if ka in NUM and kb in NUM:
        x, y, _ = _num_common(a, b)
        return mk(x == y, 'bool')
    if ka == kb and ka in ('str', 'atom'):
        return mk(z3_of(a) == z3_of(b), 'bool')
    if {ka, kb} == {'str', 'atom'}:
        # a concrete string constant compared with an abstract identifier: the constant gets a reserved (negative) atom code,
        # so the identifier MAY be that very string (models decode the code back to the constant)
        at, st = (a, b) if ka == 'atom' else (b, a)
        if is_sym(st):
            raise Unsupported('comparison of an abstract atom with a symbolic string')
        return mk(at.t == z3.IntVal(atom_code(st)), 'bool')
    return False


def truthy_scalar(v):
    k = kind_of(v)
    if not is_sym(v):
        return bool(v)
    if k == 'bool':
        return v
    if k == 'int':
        return mk(v.t != 0, 'bool')
    if k == 'real':
        return mk(v.t != 0, 'bool')
    if k == 'str':
        return mk(z3.Length(v.t) > 0, 'bool')
    if k == 'atom':
        return True          # atoms stand for non-empty identifiers (they reify to '@atom<n>')
    u = v.t
    return mk(z3.Or(z3.And(V.is_b(u), V.bv(u)), z3.And(V.is_i(u), V.iv(u) != 0), z3.And(V.is_f(u), V.fv(u) != 0),
                    z3.And(V.is_s(u), z3.Length(V.sv(u)) > 0), V.is_a(u), V.is_l(u)), 'bool')


def sym_not(b):
    if isinstance(b, Sym):
        return mk(z3.Not(b.t), 'bool')
    return not b


def sym_and(*bs):
    ts = []
    for b in bs:
        if isinstance(b, Sym):
            ts.append(b.t)
        elif not b:
            return False
    if not ts:
        return True
    return mk(z3.And(*ts), 'bool')


def sym_or(*bs):
    ts = []
    for b in bs:
        if isinstance(b, Sym):
            ts.append(b.t)
        elif b:
            return True
    if not ts:
        return False
    return mk(z3.Or(*ts), 'bool')


def as_z3_bool(b):
    if isinstance(b, Sym):
        assert b.k == 'bool', b
        return b.t
    return z3.BoolVal(bool(b))


def ite_value(g, a, b):
    """value `a if g else b` for scalars (g: z3 Bool)"""
    if a is b:
        return a
    ka, kb = kind_of(a), kind_of(b)
    if ka == 'obj' or kb == 'obj':
        raise Unsupported('merge of heap values under a guard')
    if not is_sym(a) and not is_sym(b) and type(a) is type(b) and a == b:
        return a
    if ka == kb and ka != 'none':
        return mk(z3.If(g, z3_of(a), z3_of(b)), ka)
    if ka in ('int', 'bool') and kb in ('int', 'bool') and False:
        pass
    return mk(z3.If(g, to_U(a), to_U(b)), 'U')


class AnyVal:
    """a value about which nothing is known (result of an unmodelled / havocked library call).  Every operation on it yields
    another AnyVal (or an unconstrained boolean / integer where python needs one) and -- in the faulting variant -- may raise
    an arbitrary exception instead.  Used to over-approximate *all* behaviours of library calls."""

    def __init__(self, label='any'):
        self.label = label

    def __repr__(self):
        return f'<any:{self.label}>'


class LockVal:
    """model of threading.Lock with ghost counters"""

    def __init__(self):
        self.held = False
        self.acquires = 0
        self.releases = 0
        self.errors = []      # 'acquire while held (would block forever)', 'release of an unlocked lock'
        self.trace = []

    def __repr__(self):
        return f'<lock held={self.held} +{self.acquires} -{self.releases} {self.errors}>'
