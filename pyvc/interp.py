"""
pyvc.interp -- forward symbolic execution of real Python function ASTs, one path at a time.

Forking is done by re-execution with a decision prefix (Ctx.choose); simple `if` bodies and call-free
`and/or/if-else` expressions are if-converted (guarded writes / ite terms) so that loops over many
independent fields do not explode.  Exceptions of the interpreted program are PyRaise signals carrying a
PObj of the real exception class, so try/except/finally and exceptional postconditions are exact.
"""
import ast
import builtins
import os
import enum
import importlib
import inspect
import re as _re
import types

import z3

from .values import (Sym, PObj, PList, PGenList, PDict, PSet, DictView, JsonText, BoundMethod, BuiltinMethod, Closure,
                     SuperProxy, Foreign, Opaque, Unsupported, AnyVal, LockVal, V, mk, kind_of, is_sym, z3_of, to_U, py_eq_scalar,
                     truthy_scalar, sym_not, sym_and, sym_or, as_z3_bool, ite_value, NUM)
from . import loader


# ------------------------------------------------------------------------------------------- signals
class PyRaise(Exception):
    def __init__(self, exc):
        self.exc = exc     # PObj of an exception class


class ReturnSig(Exception):
    def __init__(self, value):
        self.value = value


class BreakSig(Exception):
    pass


class ContinueSig(Exception):
    pass


class Restart(Exception):
    """re-run the same decision prefix (an if-conversion / speculation was blacklisted)"""


class CannotConvert(Exception):
    pass


class Infeasible(Exception):
    pass


class _Poison:
    """value of a name bound inside a loop over a list of unknown length, after that loop: must not be read"""
    def __repr__(self):
        return '<dead after loop>'


POISON = _Poison()


class PathLimit(Exception):
    pass


# ------------------------------------------------------------------------------------------- context
class Shared:
    """state shared by all paths of one exploration"""

    def __init__(self, rlimit=20_000_000, max_paths=20000):
        self.no_convert = set()
        self.no_spec = set()
        self.rlimit = rlimit
        self.timeout_ms = 30000 if rlimit <= 50_000_000 else 300000
        self.hard_timeout_s = 0
        self.hard_timeouts = 0
        quick = rlimit <= 50_000_000
        self.z3_first_ms = 2500 if quick else 20000
        self.cvc5_ms = 15000 if quick else 120000
        self.z3_unknown = 0
        self.faulting = False
        self.havoc_unmodelled = False
        self.field_hook = None
        self.cvc5_decided = 0
        self.max_paths = max_paths
        self.trusted = set()
        self.solver_calls = 0
        self.solver_time = 0.0
        self.functions = {}      # qualname -> info of every function whose real AST was executed
        self.summaries = {}      # real function -> summary callable(interp, args, kwargs)
        self.models_extra = {}


def cvc5_check(solver, tlimit_ms):
    """the assertions of a z3 solver, decided by the cvc5 binary -> 'sat' | 'unsat' | 'unknown'"""
    import subprocess
    import tempfile
    smt = '(set-logic ALL)\n' + solver.to_smt2()
    # z3 prints some one-character string literals as (seq.unit (_ Char n)), which cvc5 1.0 does not read
    import re as _re
    smt = _re.sub(r'\(seq\.unit \(_ Char (\d+)\)\)', lambda m: '"\\u{%x}"' % int(m.group(1)), smt)
    fd, path = tempfile.mkstemp(suffix='.smt2')
    try:
        with os.fdopen(fd, 'w') as f:
            f.write(smt)
        r = subprocess.run(['/usr/bin/cvc5', '--strings-exp', f'--tlimit={tlimit_ms}', path], capture_output=True, text=True,
                           timeout=tlimit_ms / 1000 + 10)
        out = r.stdout.strip().splitlines()
        ans = out[0] if out and out[0] in ('sat', 'unsat') else 'unknown'
        if ans == 'unknown' and os.environ.get('PYVC_DUMP_UNKNOWN'):
            import shutil
            shutil.copy(path, os.environ['PYVC_DUMP_UNKNOWN'])
        return ans
    except Exception:   # noqa
        return 'unknown'
    finally:
        try:
            os.unlink(path)
        except OSError:
            pass


class Ctx:
    def __init__(self, prefix, shared):
        self.prefix = list(prefix)
        self.pos = 0
        self.decisions = []
        self.pc = []
        self.shared = shared
        self.solver = z3.Solver()
        self.solver.set('rlimit', shared.rlimit)
        self.solver.set('timeout', shared.timeout_ms)
        self.alts = []
        self.counters = {}
        self.guards = []
        self.converting = []
        self.mutations = 0
        self.inputs = []         # (name, z3 const, kind) created by the contract
        self.side = []           # side obligations: (name, formula)  -- must hold under pc at that point
        self.lift_cache = {}
        self.memo = {}
        self.atoms = []
        self.any_ops = []
        self.fault_at = None
        self.ghost = {}
        self.class_attrs = {}
        self.depth = 0
        self.notes = []

    # -- naming
    def fresh_name(self, base):
        n = self.counters.get(base, 0)
        self.counters[base] = n + 1
        return base if n == 0 else f'{base}!{n}'

    def fresh(self, base, kind):
        name = self.fresh_name(base)
        sort = {'int': z3.IntSort(), 'bool': z3.BoolSort(), 'real': z3.RealSort(), 'str': z3.StringSort(),
                'atom': z3.IntSort(), 'U': V}[kind]
        return Sym(z3.Const(name, sort), kind)

    def trust(self, what):
        self.shared.trusted.add(what)

    # -- path condition
    def assume(self, f):
        if isinstance(f, Sym):
            f = f.t
        if f is True:
            return
        if f is False:
            raise Infeasible()
        self.pc.append(f)
        self.solver.add(f)

    def check(self, extra=None, budget_ms=None):
        """z3 first (bounded); whatever z3 leaves `unknown` goes to cvc5 (which decides most str.to_int / regex queries z3
        gives up on).  Returns z3.sat / z3.unsat / z3.unknown; after a cvc5 `sat` there is no z3 model (self.model_ok False)."""
        import time
        t0 = time.time()
        sh = self.shared
        sh.solver_calls += 1
        self.model_ok = True
        if extra is not None:
            self.solver.push()
            self.solver.add(extra)
        try:
            self.solver.set('timeout', budget_ms or sh.z3_first_ms)
            r = self.safe_check()
            if r == z3.unknown:
                sh.z3_unknown += 1
                ans = cvc5_check(self.solver, sh.cvc5_ms)
                if ans == 'unsat':
                    sh.cvc5_decided += 1
                    r = z3.unsat
                elif ans == 'sat':
                    sh.cvc5_decided += 1
                    r = z3.sat
                    self.model_ok = False
        finally:
            self.solver.set('timeout', sh.timeout_ms)
            if extra is not None:
                self.solver.pop()
        dt = time.time() - t0
        sh.solver_time += dt
        if dt > 2 and os.environ.get('PYVC_TRACE'):
            print(f'[slow check] {dt:.1f}s -> {r}; extra={str(extra)[:300]}; pc tail={[str(x)[:200] for x in self.pc[-4:]]}', flush=True)
        return r

    def safe_check(self):
        """solver.check(), behind a forked pre-check with a hard wall-clock limit when the contract asks for it"""
        if not self.shared.hard_timeout_s:
            return self.solver.check()
        r = self._forked_check(self.shared.hard_timeout_s)
        if r == 'sat':
            return self.solver.check()       # for the model; the child has just shown that this terminates
        return z3.unsat if r == 'unsat' else z3.unknown

    def _forked_check(self, limit_s):
        """solver.check() in a forked child under a hard wall-clock limit (z3's own timeout is not honoured inside some
        string/regex procedures); 'unknown' on expiry"""
        import os
        import select
        import signal
        rfd, wfd = os.pipe()
        pid = os.fork()
        if pid == 0:
            try:
                os.close(rfd)
                r = self.solver.check()
                os.write(wfd, str(r).encode())
            finally:
                os._exit(0)
        os.close(wfd)
        ans = 'unknown'
        try:
            ready, _, _ = select.select([rfd], [], [], limit_s)
            if ready:
                data = os.read(rfd, 32).decode()
                if data in ('sat', 'unsat', 'unknown'):
                    ans = data
            else:
                self.shared.hard_timeouts += 1
        finally:
            os.close(rfd)
            try:
                os.kill(pid, signal.SIGKILL)
            except ProcessLookupError:
                pass
            os.waitpid(pid, 0)
        return ans

    def choose(self, conds, label=''):
        """pick one of several alternatives (z3 Bools); the others are queued as new paths"""
        if self.guards:
            raise CannotConvert()
        if self.pos < len(self.prefix):
            idx = self.prefix[self.pos]
            self.pos += 1
            self.decisions.append(idx)
            self.assume(conds[idx])
            return idx
        feas = []
        # feasibility only prunes: `unknown` keeps the alternative
        for i, c in enumerate(conds):
            if z3.is_false(c):
                continue
            if z3.is_true(c) or self.check(c) != z3.unsat:
                feas.append(i)
        if not feas:
            raise Infeasible()
        for i in feas[1:]:
            self.alts.append(self.decisions + [i])
        idx = feas[0]
        self.pos += 1
        self.decisions.append(idx)
        self.assume(conds[idx])
        return idx

    def branch(self, cond):
        if isinstance(cond, Sym):
            t = cond.t
            return self.choose([t, z3.Not(t)]) == 0
        return bool(cond)

    def guard(self):
        return z3.And(*self.guards) if len(self.guards) > 1 else self.guards[0]

    def valid(self, f):
        """is f implied by the path condition?"""
        if isinstance(f, Sym):
            f = f.t
        if f is True or (z3.is_expr(f) and z3.is_true(f)):
            return True
        if f is False:
            return False
        return self.check(z3.Not(f)) == z3.unsat


class DeferredRaiseGen:
    """generator whose k-th element raises: yields the elements computed before, then raises"""

    def __init__(self, items, exc):
        self.items, self.exc, self.done = list(items), exc, False

    def __pyvc_iter__(self, I):
        if self.done:
            return
        self.done = True
        for x in self.items:
            yield x
        raise PyRaise(self.exc)


class Frame:
    def __init__(self, globs, defcls=None, parent=None, func=None):
        self.locals = {}
        self.globs = globs
        self.defcls = defcls
        self.parent = parent
        self.func = func
        self.global_names = set()
        self.first_param = None


import datetime as _dt

# immutable standard-library values: carried as themselves, their methods are executed natively on concrete arguments
NATIVE_VALUES = (_dt.datetime, _dt.date, _dt.time, _dt.timedelta, _dt.timezone)

NATIVE_OK = NATIVE_VALUES + (types.FunctionType, types.BuiltinFunctionType, types.ModuleType, type, enum.Enum, _re.Pattern,
             types.MethodDescriptorType, types.WrapperDescriptorType, staticmethod, classmethod, property)

_PURE_NODES = (ast.Name, ast.Constant, ast.Attribute, ast.Subscript, ast.Compare, ast.BoolOp, ast.UnaryOp,
               ast.BinOp, ast.Load, ast.Tuple, ast.IfExp, ast.Index, ast.cmpop, ast.boolop, ast.operator,
               ast.unaryop, ast.expr_context)


def call_free(node):
    return all(isinstance(n, _PURE_NODES) for n in ast.walk(node))


def _convertible_stmt(s):
    if isinstance(s, ast.Pass):
        return True
    if isinstance(s, ast.Assign):
        return all(isinstance(t, (ast.Name, ast.Subscript, ast.Attribute)) for t in s.targets) and call_free(s.value)
    if isinstance(s, ast.AugAssign):
        return isinstance(s.target, (ast.Name,)) and call_free(s.value)
    if isinstance(s, ast.Expr) and isinstance(s.value, ast.Call):
        c = s.value
        return (isinstance(c.func, ast.Attribute) and c.func.attr in ('pop',) and len(c.args) == 1
                and not c.keywords and call_free(c.args[0]) and call_free(c.func.value))
    if isinstance(s, ast.If):
        return convertible_if(s)
    return False


def convertible_if(node):
    return all(_convertible_stmt(s) for s in node.body) and all(_convertible_stmt(s) for s in node.orelse)


class InjectedFault(Exception):
    """stands for ANY exception a library call may raise (fault sequences)"""
    _pyvc_any_exception = True


class Interp:
    def __init__(self, ctx):
        self.ctx = ctx
        from . import models
        self.models = models

    # =================================================================================== havoc / faults
    def any_op(self, what, result=True):
        """an operation on an unknown value: may fault (if the contract asks for the faulting variant), else yields AnyVal"""
        ctx = self.ctx
        ctx.any_ops.append(what)
        if ctx.shared.faulting:
            if ctx.choose([z3.BoolVal(True), z3.BoolVal(True)], f'fault@{what}') == 1:
                ctx.fault_at = (len(ctx.any_ops) - 1, what)
                raise PyRaise(PObj(InjectedFault, {'args': (what,)}))
        return AnyVal(what) if result else None

    # =================================================================================== exceptions
    def raise_(self, cls, *args):
        raise PyRaise(self.make_exc(cls, args))

    def make_exc(self, cls, args):
        return PObj(cls, {'args': tuple(args)})

    # =================================================================================== lifting
    def lift(self, x):
        if x is None or isinstance(x, (bool, int, float, str, Sym, PObj, PList, PDict, PSet, JsonText, Foreign,
                                      BoundMethod, Closure, BuiltinMethod, Opaque, DictView, SuperProxy)):
            return x
        if isinstance(x, NATIVE_OK) or isinstance(x, (AnyVal, LockVal)) or hasattr(x, 'pyvc_getattr') \
                or hasattr(x, '__pyvc_iter__'):
            return x
        c = self.ctx.lift_cache
        if id(x) in c:
            return c[id(x)][1]
        if isinstance(x, tuple):
            r = tuple(self.lift(i) for i in x)
        elif isinstance(x, list):
            r = PList([self.lift(i) for i in x])
        elif isinstance(x, dict):
            r = PDict({k: self.lift(v) for k, v in x.items()})
        elif isinstance(x, (set, frozenset)):
            r = PSet([self.lift(i) for i in x])
        elif isinstance(x, types.MethodType):
            r = BoundMethod(x.__func__, self.lift(x.__self__))
        elif hasattr(type(x), '__fields__') and isinstance(getattr(type(x), '__fields__'), tuple):
            # recordclass / dataobject record (constraint tables): a plain data record -> object with the same fields
            r = PObj(type(x), {f: self.lift(getattr(x, f)) for f in type(x).__fields__})
        else:
            r = Foreign(x)
        c[id(x)] = (x, r)
        return r

    # =================================================================================== truth / equality
    def truthy(self, v):
        if hasattr(v, '__pyvc_len__') and not isinstance(v, PObj):
            return truthy_scalar(v.__pyvc_len__(self)) if is_sym(v.__pyvc_len__(self)) else v.__pyvc_len__(self) > 0
        if hasattr(v, 'pyvc_getattr') and not isinstance(v, PObj):
            return True
        if isinstance(v, PObj):
            m = self.find_method(v.cls, '__bool__') or None
            if m is not None:
                return self.truthy(self.call(m, [v], {}))
            m = self.find_method(v.cls, '__len__')
            if m is not None:
                return self.truthy(self.call(m, [v], {}))
            return True
        if isinstance(v, (PList, PSet)):
            return len(v.items) > 0
        if isinstance(v, PDict):
            n = self.dict_len(v)
            return truthy_scalar(n)
        if isinstance(v, tuple):
            return len(v) > 0
        if isinstance(v, JsonText):
            return True
        if isinstance(v, Opaque) and v.truthy is not None:
            return v.truthy
        if isinstance(v, AnyVal):
            self.any_op(f'bool({v.label})', result=False)
            return self.ctx.fresh('anybool', 'bool')
        if isinstance(v, LockVal):
            return True
        if isinstance(v, (Foreign, Opaque)):
            raise Unsupported('truth value of an opaque object')
        if isinstance(v, (Closure, BoundMethod, BuiltinMethod)) or isinstance(v, NATIVE_OK):
            return True
        return truthy_scalar(v)

    def find_method(self, cls, name):
        """python-level special method defined by a user class (not inherited from object/builtins)"""
        for k in cls.__mro__:
            if k is object or k.__module__ == 'builtins' or k.__module__ == 'abc':
                continue
            if name in k.__dict__:
                m = k.__dict__[name]
                return m if isinstance(m, types.FunctionType) else None
        return None

    def py_eq(self, a, b):
        if isinstance(a, AnyVal) or isinstance(b, AnyVal):
            self.any_op('==', result=False)
            return self.ctx.fresh('anybool', 'bool')
        if isinstance(a, PObj):
            m = self.find_method(a.cls, '__eq__')
            if m is not None:
                return self.truthy(self.call(m, [a, b], {}))
            return a is b
        if isinstance(b, PObj):
            m = self.find_method(b.cls, '__eq__')
            if m is not None:
                return self.truthy(self.call(m, [b, a], {}))
            return a is b
        if isinstance(a, PList) and isinstance(b, PList):
            if len(a.items) != len(b.items):
                return False
            return sym_and(*[self.py_eq(x, y) for x, y in zip(a.items, b.items)])
        if isinstance(a, tuple) and isinstance(b, tuple):
            if len(a) != len(b):
                return False
            return sym_and(*[self.py_eq(x, y) for x, y in zip(a, b)])
        if isinstance(a, PDict) and isinstance(b, PDict):
            return self.models.dict_eq(self, a, b)
        if isinstance(a, PSet) and isinstance(b, PSet):
            return self.models.set_eq(self, a, b)
        if isinstance(a, JsonText) or isinstance(b, JsonText):
            return self.models.jsontext_eq(self, a, b)
        heap = (PList, PDict, PSet, tuple, Foreign, Opaque, Closure, BoundMethod)
        if isinstance(a, heap) or isinstance(b, heap):
            if isinstance(a, (Foreign, Opaque)) or isinstance(b, (Foreign, Opaque)):
                if a is b:
                    return True
                raise Unsupported('equality on opaque values')
            if is_sym(a) and a.k == 'U' or is_sym(b) and b.k == 'U':
                raise Unsupported('equality of universal scalar with a container')
            return a is b
        if isinstance(a, NATIVE_OK) or isinstance(b, NATIVE_OK):
            if is_sym(a) or is_sym(b):
                return False
            return a == b
        return py_eq_scalar(a, b)

    def is_(self, a, b):
        """`a is b`"""
        if isinstance(a, AnyVal) or isinstance(b, AnyVal):
            if a is None or b is None or a is b:
                return self.ctx.fresh('anybool', 'bool') if not (a is b) else True
            return self.ctx.fresh('anybool', 'bool')
        for x, y in ((a, b), (b, a)):
            if y is None:
                if x is None:
                    return True
                if is_sym(x) and x.k == 'U':
                    return mk(V.is_none(x.t), 'bool')
                return False
            if y is True or y is False:
                if isinstance(x, bool):
                    return x is y
                if is_sym(x) and x.k == 'bool':
                    return x if y else sym_not(x)
                if is_sym(x) and x.k == 'U':
                    return mk(z3.And(V.is_b(x.t), V.bv(x.t) == y), 'bool')
                return False
        if is_sym(a) or is_sym(b):
            raise Unsupported('`is` between symbolic scalars')
        if isinstance(a, (int, str, float, tuple)) and not isinstance(a, bool):
            if isinstance(a, enum.Enum) or isinstance(b, enum.Enum):
                return a is b
            if isinstance(b, (int, str, float, tuple)):
                raise Unsupported('`is` between immutable literals is implementation dependent')
            return False
        return a is b

    # =================================================================================== dict helpers
    def dict_len(self, d):
        n = 0
        terms = []
        for g, _ in d.e.values():
            if g is True:
                n += 1
            else:
                terms.append(z3.If(g, 1, 0))
        if not terms:
            return n
        return mk(z3.Sum(*terms) + n if n else z3.Sum(*terms), 'int')

    def _key(self, k, d=None):
        """the key object under which k is (or will be) stored.  Symbolic keys are compared with the existing keys by
        branching on equality (python dict semantics: equal keys are one entry)."""
        if isinstance(k, (PList, PDict, PSet)):
            self.raise_(TypeError, 'unhashable type')
        if d is None:
            if is_sym(k):
                raise Unsupported(f'symbolic dictionary key {k!r}')
            return k
        if not is_sym(k):
            try:
                if k in d.e:
                    return k
            except TypeError:
                raise Unsupported(f'unhashable key {k!r}')
            symkeys = [kk for kk in d.e if is_sym(kk)]
            if not symkeys or isinstance(k, (PObj, tuple)) or not isinstance(k, (str, int, float, bool, type(None))):
                return k
            cands = symkeys
        else:
            if k in d.e:
                return k
            cands = list(d.e.keys())
        for kk in cands:
            e = self.py_eq(k, kk)
            if e is False:
                continue
            if self.ctx.guards and e is not True:
                raise CannotConvert()
            if e is True or self.ctx.branch(e):
                return kk
        return k

    def dict_present(self, d, k):
        """is key k present (forks when presence is symbolic)"""
        k = self._key(k, d)
        if k not in d.e:
            return False
        g = d.e[k][0]
        if g is True:
            return True
        if self.ctx.guards:
            raise CannotConvert()
        if self.ctx.branch(Sym(g, 'bool')):
            d.e[k][0] = True
            return True
        del d.e[k]
        return False

    def dict_get(self, d, k):
        k = self._key(k, d)
        if not self.dict_present(d, k):
            self.raise_(KeyError, k)
        return d.e[k][1]

    def dict_set(self, d, k, v):
        k = self._key(k, d)
        self.ctx.mutations += 1
        if self.ctx.guards:
            g = self.ctx.guard()
            if k in d.e:
                og, ov = d.e[k]
                ng = True if og is True else z3.Or(og, g)
                d.e[k] = [ng, ite_value(g, v, ov)]
            else:
                d.e[k] = [g, v]
                d.version += 1
            return
        if k not in d.e:
            d.version += 1
        d.e[k] = [True, v]

    def dict_pop(self, d, k, default=KeyError):
        k = self._key(k, d)
        if self.ctx.guards:
            if k not in d.e or d.e[k][0] is not True:
                raise CannotConvert()
            g = self.ctx.guard()
            self.ctx.mutations += 1
            d.e[k][0] = z3.Not(g)
            d.version += 1
            return None
        if not self.dict_present(d, k):
            if default is KeyError:
                self.raise_(KeyError, k)
            return default
        self.ctx.mutations += 1
        d.version += 1
        return d.e.pop(k)[1]

    def dict_keys_now(self, d):
        """list of present keys; forks on symbolic presence"""
        out = []
        for k in list(d.e.keys()):
            if self.dict_present(d, k):
                out.append(k)
        return out

    # =================================================================================== attributes
    def getattr_(self, obj, name):
        ctx = self.ctx
        if isinstance(obj, AnyVal):
            return AnyVal(f'{obj.label}.{name}')
        if isinstance(obj, LockVal):
            return BuiltinMethod(obj, name)
        if hasattr(obj, 'pyvc_getattr'):
            return obj.pyvc_getattr(self, name)
        if isinstance(obj, PObj):
            return self.obj_getattr(obj, name)
        if isinstance(obj, SuperProxy):
            mro = obj.obj.cls.__mro__ if isinstance(obj.obj, PObj) else obj.obj.__mro__
            i = mro.index(obj.cls)
            for k in mro[i + 1:]:
                if name in k.__dict__:
                    raw = k.__dict__[name]
                    return self.bind(raw, obj.obj, k)
            self.raise_(AttributeError, name)
        if isinstance(obj, (PList, PDict, PSet, DictView, JsonText, tuple)) or kind_of(obj) in ('str',) \
                or isinstance(obj, (int, float)) and not isinstance(obj, enum.Enum):
            if isinstance(obj, enum.Enum):
                return self.lift(getattr(obj, name))
            # only names the python type really has (a str has no .node_id: AttributeError, as in CPython)
            pytype = (list if isinstance(obj, PList) else dict if isinstance(obj, PDict) else set if isinstance(obj, PSet) else
                      str if (isinstance(obj, (str, JsonText)) or kind_of(obj) == 'str') else tuple if isinstance(obj, tuple) else
                      type(obj) if isinstance(obj, (int, float)) else None)
            if pytype is not None and not hasattr(pytype, name) and not name.startswith('__pyvc'):
                self.raise_(AttributeError, f"'{pytype.__name__}' object has no attribute '{name}'")
            return BuiltinMethod(obj, name)
        if isinstance(obj, Foreign):
            return Foreign(None)
        if isinstance(obj, type):
            # class attribute through the class object (writes made by the interpreted program live in an overlay)
            for k in obj.__mro__:
                if (k, name) in ctx.class_attrs:
                    return ctx.class_attrs[(k, name)]
            for k in obj.__mro__:
                if name in k.__dict__:
                    raw = k.__dict__[name]
                    if isinstance(raw, classmethod):
                        return BoundMethod(raw.__func__, obj)
                    if isinstance(raw, staticmethod):
                        return raw.__func__
                    if isinstance(raw, (types.FunctionType, property)):
                        return raw
                    break
            try:
                return self.lift(getattr(obj, name))
            except AttributeError:
                self.raise_(AttributeError, name)
        if isinstance(obj, NATIVE_VALUES):
            a = getattr(obj, name, None)
            if a is None and not hasattr(obj, name):
                self.raise_(AttributeError, name)
            if callable(a):
                return BuiltinMethod(obj, name)
            return self.lift(a)
        if isinstance(obj, (types.ModuleType, enum.Enum, types.FunctionType, _re.Pattern)):
            if isinstance(obj, _re.Pattern) and name in ('match', 'fullmatch', 'search'):
                return BuiltinMethod(obj, name)
            try:
                return self.lift(getattr(obj, name))
            except AttributeError:
                self.raise_(AttributeError, name)
        if obj is None:
            self.raise_(AttributeError, f"'NoneType' object has no attribute {name!r}")
        if is_sym(obj) and obj.k == 'U':
            raise Unsupported(f'attribute {name} of a universal scalar')
        if isinstance(obj, (Closure, BoundMethod)):
            raise Unsupported(f'attribute {name} of function value')
        raise Unsupported(f'getattr on {type(obj).__name__}.{name}')

    def bind(self, raw, obj, owner):
        if isinstance(raw, types.FunctionType) and (raw.__module__ or '') in ('_collections_abc', 'collections.abc'):
            return BuiltinMethod(obj, raw.__name__)         # Mapping / Sequence mixin methods: modelled
        if isinstance(raw, types.FunctionType):
            return BoundMethod(raw, obj)
        if isinstance(raw, classmethod):
            return BoundMethod(raw.__func__, obj.cls if isinstance(obj, PObj) else obj)
        if isinstance(raw, staticmethod):
            return raw.__func__
        if isinstance(raw, property):
            return self.call(raw.fget, [obj], {})
        if isinstance(raw, (types.WrapperDescriptorType, types.MethodDescriptorType)):
            return BuiltinMethod(obj, raw.__name__)
        return self.lift(raw)

    def class_lookup(self, cls, name):
        for k in cls.__mro__:
            if (k, name) in self.ctx.class_attrs:
                return self.ctx.class_attrs[(k, name)], k
            if name in k.__dict__:
                return k.__dict__[name], k
        return None, None

    def obj_getattr(self, obj, name, use_getattr_hook=True):
        if self.ctx.shared.field_hook is not None:
            self.ctx.shared.field_hook(self, obj, name, 'read')
        if name == '__dict__':
            return obj.d
        if name == '__class__':
            return obj.cls
        raw, owner = self.class_lookup(obj.cls, name)
        if isinstance(raw, property):
            return self.call(raw.fget, [obj], {})
        if name in obj.d.e and self.dict_present(obj.d, name):
            return obj.d.e[name][1]
        if raw is not None or owner is not None:
            if name in ('__getattribute__', '__setattr__', '__delattr__', '__init__') and owner in (object, BaseException,
                                                                                                  Exception):
                return BuiltinMethod(obj, name)
            return self.bind(raw, obj, owner)
        if use_getattr_hook:
            hook = self.find_method(obj.cls, '__getattr__')
            if hook is not None:
                return self.call(hook, [obj, name], {})
        self.raise_(AttributeError, f"'{obj.cls.__name__}' object has no attribute '{name}'")

    def setattr_(self, obj, name, val):
        if isinstance(obj, PObj) and self.ctx.shared.field_hook is not None:
            self.ctx.shared.field_hook(self, obj, name, 'write')
        if isinstance(obj, PObj):
            raw, owner = self.class_lookup(obj.cls, name)
            if isinstance(raw, property):
                if raw.fset is None:
                    self.raise_(AttributeError, f"can't set attribute {name}")
                self.call(raw.fset, [obj, val], {})
                return
            hook = self.find_method(obj.cls, '__setattr__')
            if hook is not None:
                raise Unsupported('user-defined __setattr__')
            self.dict_set(obj.d, name, val)
            return
        if isinstance(obj, type) and (obj.__module__ or '').startswith('fim'):
            if self.ctx.guards:
                raise CannotConvert()
            self.ctx.class_attrs[(obj, name)] = val
            self.ctx.mutations += 1
            return
        raise Unsupported(f'setattr on {type(obj).__name__}')

    # =================================================================================== calls
    def call(self, fn, args, kwargs):
        ctx = self.ctx
        if isinstance(fn, BoundMethod):
            return self.call(fn.func, [fn.self_] + list(args), kwargs)
        if isinstance(fn, BuiltinMethod):
            return self.models.builtin_method(self, fn.recv, fn.name, list(args), kwargs)
        if isinstance(fn, Closure):
            return self.call_closure(fn, list(args), kwargs)
        if isinstance(fn, Foreign):
            return Opaque()
        if isinstance(fn, AnyVal):
            return self.any_op(f'{fn.label}()')
        if hasattr(fn, 'pyvc_call'):
            return fn.pyvc_call(self, list(args), kwargs)
        if isinstance(fn, types.MethodType):
            return self.call(fn.__func__, [self.lift(fn.__self__)] + list(args), kwargs)
        if isinstance(fn, (staticmethod, classmethod)):
            fn = fn.__func__
        if isinstance(fn, property):
            raise Unsupported('calling a property object')
        summ = ctx.shared.summaries.get(fn)
        if summ is not None:
            return summ(self, list(args), kwargs)
        m = self.models.lookup(fn)
        if m is not None:
            return m(self, list(args), kwargs)
        if isinstance(fn, types.FunctionType) and getattr(fn, '__wrapped__', None) is not None and \
                fn.__code__.co_filename.endswith('contextlib.py') and inspect.isgeneratorfunction(fn.__wrapped__):
            return self.models.GenContextManager(self, fn.__wrapped__, list(args), kwargs)
        if type(fn).__name__ == '_lru_cache_wrapper' and hasattr(fn, '__wrapped__'):
            return self.call_lru_cached(fn, list(args), kwargs)
        if isinstance(fn, types.FunctionType):
            mod = fn.__module__ or ''
            if mod == 'fim' or mod.startswith('fim.'):
                return self.call_pyfunc(fn, list(args), kwargs)
            if ctx.shared.havoc_unmodelled:
                return self.any_op(f'{mod.split(".")[0]}.{fn.__name__}()')
            raise Unsupported(f'call of unmodelled function {mod}.{fn.__qualname__}')
        if isinstance(fn, type) and issubclass(fn, NATIVE_VALUES) or \
                isinstance(fn, (types.BuiltinMethodType, types.MethodDescriptorType)) and isinstance(getattr(fn, '__self__', None), type) \
                and issubclass(fn.__self__, NATIVE_VALUES):
            return self.models.native_call(self, fn, list(args), kwargs)
        if isinstance(fn, type):
            if ctx.shared.havoc_unmodelled and not ((fn.__module__ or '').startswith('fim') or fn.__module__ == 'builtins'
                                                    or issubclass(fn, BaseException)):
                return self.any_op(f'{(fn.__module__ or "").split(".")[0]}.{fn.__name__}()')
            return self.instantiate(fn, list(args), kwargs)
        if ctx.shared.havoc_unmodelled and callable(fn):
            return self.any_op(f'{getattr(fn, "__module__", "") or ""}.{getattr(fn, "__name__", "fn")}()')
        raise Unsupported(f'call of {fn!r}')

    def call_lru_cached(self, fn, args, kwargs):
        """functools.lru_cache: the cache lives for the whole path (process); a call whose arguments are EQUAL (the arguments'
        own __eq__, as a dict lookup would decide after the hash matched) to those of an earlier call returns the earlier
        RESULT OBJECT.  Eviction (maxsize) is not modelled."""
        self.ctx.trust('functools.lru_cache: hit iff the arguments equal those of an earlier call (their __eq__); no eviction')
        cache = self.ctx.ghost.setdefault('lru_cache', {}).setdefault(id(fn), [])
        key = list(args) + [kv for k in sorted(kwargs) for kv in (k, kwargs[k])]
        for k0, res in cache:
            if len(k0) != len(key):
                continue
            hit = True
            for a, b in zip(k0, key):
                if a is b:
                    continue
                if isinstance(a, (PList, PDict, PSet)) or isinstance(b, (PList, PDict, PSet)):
                    self.raise_(TypeError, 'unhashable type')
                if not self.ctx.branch(self.py_eq(a, b)):
                    hit = False
                    break
            if hit:
                return res
        res = self.call(fn.__wrapped__, args, kwargs)
        cache.append((key, res))
        return res

    def instantiate(self, cls, args, kwargs):
        if issubclass(cls, BaseException):
            # exception constructors: message formatting is assumed total, __init__ bodies are not executed -- but the
            # arguments are bound against the real signature (a missing mandatory keyword is a TypeError at run time)
            init, owner = self.class_lookup(cls, '__init__')
            if isinstance(init, types.FunctionType) and (init.__module__ or '').startswith('fim'):
                info = loader.func_info(init)
                fr = Frame(init.__globals__, info['defcls'], None, init)
                self.bind_args(info['node'].args, fr, [None] + list(args), kwargs,
                               [self.lift(d) for d in (init.__defaults__ or ())],
                               {k: self.lift(v) for k, v in (init.__kwdefaults__ or {}).items()}, cls.__name__)
            return self.make_exc(cls, args)
        if issubclass(cls, enum.Enum):
            if any(is_sym(a) for a in args):
                raise Unsupported('Enum lookup with symbolic value')
            try:
                return cls(*args)
            except ValueError as e:
                self.raise_(ValueError, str(e))
        mod = cls.__module__ or ''
        user_subclass = mod.startswith('contracts.') and not any(k for k in vars(cls) if not k.startswith('__') and k != '_abc_impl') and \
            any((b.__module__ or '').startswith('fim.') for b in cls.__mro__[1:])
        # (a class a CONTRACT derives from a fim class without overriding anything: what a user library does; every method
        #  is looked up along the MRO in the real fim source)
        if not (mod == 'fim' or mod.startswith('fim.') or user_subclass):
            raise Unsupported(f'instantiation of unmodelled class {mod}.{cls.__qualname__}')
        if isinstance(getattr(cls, '__fields__', None), tuple) and not isinstance(self.class_lookup(cls, '__init__')[0], types.FunctionType):
            # recordclass record type: positional / keyword fields in declaration order
            flds = list(cls.__fields__)
            if len(args) > len(flds):
                self.raise_(TypeError, 'too many arguments')
            vals = dict(zip(flds, args))
            for k, v in kwargs.items():
                if k not in flds or k in vals:
                    self.raise_(TypeError, f'unexpected or repeated argument {k}')
                vals[k] = v
            dflt = getattr(cls, '__defaults__', None) or ()
            for i, f in enumerate(flds):
                if f not in vals:
                    j = i - (len(flds) - len(dflt))
                    if j < 0:
                        self.raise_(TypeError, f'missing argument {f}')
                    vals[f] = self.lift(dflt[j])
            return PObj(cls, {f: vals[f] for f in flds})
        import dataclasses
        init0, _ = self.class_lookup(cls, '__init__')
        if dataclasses.is_dataclass(cls) and isinstance(init0, types.FunctionType) and init0.__code__.co_filename == '<string>':
            # dataclass-generated __init__: fields are assigned in declaration order
            obj = PObj(cls)
            flds = [f for f in dataclasses.fields(cls) if f.init]
            vals = dict(zip([f.name for f in flds], args))
            if len(args) > len(flds):
                self.raise_(TypeError, 'too many positional arguments')
            for k, v in kwargs.items():
                if k in vals or k not in [f.name for f in flds]:
                    self.raise_(TypeError, f'unexpected or repeated argument {k}')
                vals[k] = v
            for f in flds:
                if f.name not in vals:
                    if f.default is not dataclasses.MISSING:
                        vals[f.name] = self.lift(f.default)
                    elif f.default_factory is not dataclasses.MISSING:
                        vals[f.name] = self.call(f.default_factory, [], {})
                    else:
                        self.raise_(TypeError, f'missing argument {f.name}')
                self.dict_set(obj.d, f.name, vals[f.name])
            return obj
        if inspect.isabstract(cls):
            self.raise_(TypeError, f"Can't instantiate abstract class {cls.__name__}")
        new, _ = self.class_lookup(cls, '__new__')
        if isinstance(new, staticmethod) or isinstance(new, types.FunctionType):
            raise Unsupported(f'user-defined __new__ in {cls.__name__}')
        obj = PObj(cls)
        init, owner = self.class_lookup(cls, '__init__')
        if isinstance(init, types.FunctionType):
            self.call(init, [obj] + args, kwargs)
        elif args or kwargs:
            self.raise_(TypeError, f'{cls.__name__}() takes no arguments')
        return obj

    def call_pyfunc(self, func, args, kwargs):
        info = loader.func_info(func)
        self.ctx.shared.functions[info['qualname']] = info
        node = info['node']
        if any(isinstance(n, (ast.Yield, ast.YieldFrom, ast.Await)) for n in ast.walk(node)):
            raise Unsupported(f'generator function {info["qualname"]}')
        frame = Frame(func.__globals__, info['defcls'], None, func)
        if func.__closure__:
            for name, cell in zip(func.__code__.co_freevars, func.__closure__):
                try:
                    if name == '__class__':
                        frame.defcls = cell.cell_contents
                    else:
                        frame.locals[name] = self.lift(cell.cell_contents)
                except ValueError:
                    pass
        defaults = [self.lift(d) for d in (func.__defaults__ or ())]
        kwdefaults = {k: self.lift(v) for k, v in (func.__kwdefaults__ or {}).items()}
        self.bind_args(node.args, frame, args, kwargs, defaults, kwdefaults, func.__name__)
        return self.run_body(node, frame)

    def call_closure(self, clo, args, kwargs):
        frame = Frame(clo.globs, clo.defcls, clo.env, None)
        self.bind_args(clo.node.args, frame, args, kwargs, clo.defaults, clo.kwdefaults, clo.name)
        return self.run_body(clo.node, frame)

    def run_body(self, node, frame):
        self.ctx.depth += 1
        if self.ctx.depth > 60:
            raise Unsupported('call depth > 60 (recursion is not supported without a contract)')
        try:
            if isinstance(node, ast.Lambda):
                return self.eval(node.body, frame)
            try:
                self.exec_block(node.body, frame)
            except ReturnSig as r:
                return r.value
            return None
        finally:
            self.ctx.depth -= 1

    def bind_args(self, a, frame, args, kwargs, defaults, kwdefaults, fname):
        params = [p.arg for p in a.posonlyargs + a.args]
        frame.first_param = params[0] if params else None
        kwargs = dict(kwargs)
        n = len(params)
        loc = frame.locals
        if len(args) > n and a.vararg is None:
            self.raise_(TypeError, f'{fname}() takes {n} positional arguments but {len(args)} were given')
        for i, p in enumerate(params):
            if i < len(args):
                loc[p] = args[i]
                if p in kwargs:
                    self.raise_(TypeError, f'{fname}() got multiple values for argument {p!r}')
            elif p in kwargs and p not in [x.arg for x in a.posonlyargs]:
                loc[p] = kwargs.pop(p)
            else:
                di = i - (n - len(defaults))
                if di >= 0:
                    loc[p] = defaults[di]
                else:
                    self.raise_(TypeError, f'{fname}() missing required positional argument {p!r}')
        if a.vararg is not None:
            loc[a.vararg.arg] = tuple(args[n:])
        for p, d in zip(a.kwonlyargs, a.kw_defaults):
            if p.arg in kwargs:
                loc[p.arg] = kwargs.pop(p.arg)
            elif p.arg in kwdefaults:
                loc[p.arg] = kwdefaults[p.arg]
            else:
                self.raise_(TypeError, f'{fname}() missing required keyword-only argument {p.arg!r}')
        if a.kwarg is not None:
            loc[a.kwarg.arg] = PDict(kwargs)
        elif kwargs:
            self.raise_(TypeError, f'{fname}() got an unexpected keyword argument {next(iter(kwargs))!r}')

    # =================================================================================== statements
    def exec_block(self, stmts, frame):
        for s in stmts:
            self.exec_stmt(s, frame)

    def exec_stmt(self, s, frame):
        m = getattr(self, 'st_' + type(s).__name__, None)
        if m is None:
            raise Unsupported(f'statement {type(s).__name__} (line {s.lineno})')
        return m(s, frame)

    def st_Pass(self, s, frame):
        pass

    def st_Expr(self, s, frame):
        if isinstance(s.value, ast.Constant):
            return
        self.eval(s.value, frame)

    def st_Return(self, s, frame):
        raise ReturnSig(self.eval(s.value, frame) if s.value is not None else None)

    def st_Break(self, s, frame):
        raise BreakSig()

    def st_Continue(self, s, frame):
        raise ContinueSig()

    def st_Global(self, s, frame):
        frame.global_names.update(s.names)

    def st_Import(self, s, frame):
        for al in s.names:
            mod = importlib.import_module(al.name)
            if al.asname:
                frame.locals[al.asname] = mod
            else:
                frame.locals[al.name.split('.')[0]] = importlib.import_module(al.name.split('.')[0])

    def st_ImportFrom(self, s, frame):
        mod = importlib.import_module(s.module)
        for al in s.names:
            frame.locals[al.asname or al.name] = self.lift(getattr(mod, al.name))

    def st_FunctionDef(self, s, frame):
        clo = Closure(s, frame, frame.globs, frame.defcls, s.name)
        clo.defaults = [self.eval(d, frame) for d in s.args.defaults]
        clo.kwdefaults = {p.arg: self.eval(d, frame) for p, d in zip(s.args.kwonlyargs, s.args.kw_defaults) if d is not None}
        if s.decorator_list:
            raise Unsupported('decorated nested function')
        frame.locals[s.name] = clo

    def st_Assert(self, s, frame):
        ok = self.truthy(self.eval(s.test, frame))
        if not self.ctx.branch(ok):
            self.raise_(AssertionError)

    def st_Raise(self, s, frame):
        if s.exc is None:
            cur = getattr(frame, 'handling', None)
            if cur is None:
                self.raise_(RuntimeError, 'No active exception to reraise')
            raise PyRaise(cur)
        e = self.eval(s.exc, frame)
        if isinstance(e, type) and issubclass(e, BaseException):
            e = self.instantiate(e, [], {})
        if not (isinstance(e, PObj) and issubclass(e.cls, BaseException)):
            self.raise_(TypeError, 'exceptions must derive from BaseException')
        raise PyRaise(e)

    def st_Delete(self, s, frame):
        for t in s.targets:
            if isinstance(t, ast.Name):
                if t.id not in frame.locals:
                    self.raise_(NameError, t.id)
                del frame.locals[t.id]
            elif isinstance(t, ast.Subscript):
                c = self.eval(t.value, frame)
                k = self.eval(t.slice, frame)
                self.models.delitem(self, c, k)
            else:
                raise Unsupported('del of attribute')

    def assign(self, target, val, frame):
        ctx = self.ctx
        if isinstance(target, ast.Name):
            if target.id in frame.global_names:
                raise Unsupported('assignment to a global')
            if ctx.guards:
                if target.id not in frame.locals:
                    raise CannotConvert()
                try:
                    val = ite_value(ctx.guard(), val, frame.locals[target.id])
                except Unsupported:
                    raise CannotConvert()
            frame.locals[target.id] = val
        elif isinstance(target, ast.Attribute):
            obj = self.eval(target.value, frame)
            self.setattr_(obj, self.mangle(target.attr, frame), val)
        elif isinstance(target, ast.Subscript):
            c = self.eval(target.value, frame)
            k = self.eval(target.slice, frame)
            self.models.setitem(self, c, k, val)
        elif isinstance(target, (ast.Tuple, ast.List)):
            if ctx.guards:
                raise CannotConvert()
            items = list(self.iterate(val))
            if any(isinstance(e, ast.Starred) for e in target.elts):
                raise Unsupported('starred assignment')
            if len(items) != len(target.elts):
                self.raise_(ValueError, 'unpack')
            for t, v in zip(target.elts, items):
                self.assign(t, v, frame)
        else:
            raise Unsupported(f'assignment target {type(target).__name__}')

    def st_Assign(self, s, frame):
        v = self.eval(s.value, frame)
        for t in s.targets:
            self.assign(t, v, frame)

    def st_AnnAssign(self, s, frame):
        if s.value is not None:
            self.assign(s.target, self.eval(s.value, frame), frame)

    def st_AugAssign(self, s, frame):
        load = ast.copy_location(type(s.target)(**{k: getattr(s.target, k) for k in s.target._fields if k != 'ctx'},
                                                ctx=ast.Load()), s.target)
        cur = self.eval(load, frame)
        v = self.eval(s.value, frame)
        if isinstance(cur, PList) and isinstance(s.op, ast.Add):
            if self.ctx.guards:
                raise CannotConvert()
            cur.items.extend(list(self.iterate(v)))
            cur.version += 1
            self.ctx.mutations += 1
            return
        self.assign(s.target, self.binop(s.op, cur, v), frame)

    def st_If(self, s, frame):
        ctx = self.ctx
        c = self.truthy(self.eval(s.test, frame))
        if not isinstance(c, Sym):
            self.exec_block(s.body if c else s.orelse, frame)
            return
        if id(s) not in ctx.shared.no_convert and convertible_if(s) and (not ctx.guards or True):
            g = c.t
            ctx.converting.append(s)
            try:
                try:
                    ctx.guards.append(g)
                    try:
                        self.exec_block(s.body, frame)
                    finally:
                        ctx.guards.pop()
                    if s.orelse:
                        ctx.guards.append(z3.Not(g))
                        try:
                            self.exec_block(s.orelse, frame)
                        finally:
                            ctx.guards.pop()
                except (PyRaise, CannotConvert):
                    ctx.shared.no_convert.add(id(s))
                    raise Restart()
            finally:
                ctx.converting.pop()
            return
        if ctx.branch(c):
            self.exec_block(s.body, frame)
        else:
            self.exec_block(s.orelse, frame)

    def st_While(self, s, frame):
        n = 0
        while True:
            c = self.truthy(self.eval(s.test, frame))
            if not self.ctx.branch(c):
                break
            n += 1
            if n > 200:
                raise Unsupported('while loop without invariant exceeded 200 iterations')
            try:
                self.exec_block(s.body, frame)
            except BreakSig:
                return
            except ContinueSig:
                continue
        self.exec_block(s.orelse, frame)

    def st_For(self, s, frame):
        it = self.eval(s.iter, frame)
        if isinstance(it, PGenList):
            return self.gen_loop(s, it, frame)
        for item in self.iterate(it):
            self.assign(s.target, item, frame)
            try:
                self.exec_block(s.body, frame)
            except BreakSig:
                return
            except ContinueSig:
                continue
        self.exec_block(s.orelse, frame)

    # ----------------------------------------------------------------------------------- loop rule (unbounded lists)
    def _gen_body_once(self, s, elem, frame, must):
        target, stmts = s
        """one iteration of the loop body on `elem`; must='complete': paths on which it raises are infeasible and a heap
        write is outside the rule; must='raise': paths on which it completes are infeasible (the exception propagates)"""
        before = self.ctx.mutations
        self.assign(target, elem, frame)
        try:
            try:
                self.exec_block(stmts, frame)
            except ContinueSig:
                pass
        except PyRaise:
            if must == 'raise':
                raise
            raise Infeasible()
        if must == 'raise':
            raise Infeasible()
        if self.ctx.mutations != before:
            raise Unsupported('loop rule: an iteration that completes normally writes to the heap (needs an invariant)')

    def gen_loop(self, s, L, frame):
        """`for x in L` over a list of unknown length whose body, when it completes normally, has no effect that outlives
        the iteration (checked: no heap write, no break/return/yield/global; names bound in the body are dead afterwards).
        Then the loop (A0) does nothing when L is empty, (A1) completes iff the body completes on every element -- recorded as
        a fact about the GENERIC element -- or (B) ends with the exception of the first element on which the body raises -- a
        fresh WITNESS element on which the bodies of the earlier completed loops over L complete and this body raises."""
        if s.orelse:
            raise Unsupported('loop rule: for/else')
        bound = set()
        for sub in s.body:
            for node in ast.walk(sub):
                if isinstance(node, (ast.Break, ast.Return, ast.Yield, ast.YieldFrom, ast.Global, ast.Nonlocal, ast.Await,
                                     ast.Delete)):
                    raise Unsupported(f'loop rule: {type(node).__name__} in the body')
                if isinstance(node, ast.Name) and isinstance(node.ctx, ast.Store):
                    bound.add(node.id)
                if isinstance(node, (ast.FunctionDef, ast.ClassDef, ast.Import, ast.ImportFrom, ast.NamedExpr)):
                    raise Unsupported(f'loop rule: {type(node).__name__} in the body')
        for node in ast.walk(s.target):
            if isinstance(node, ast.Name):
                bound.add(node.id)
            elif not isinstance(node, (ast.Tuple, ast.Store, ast.Load)):
                raise Unsupported('loop rule: loop target is not a plain name')
        self.ctx.trust('loop rule for lists of unknown length: a for-loop whose normally completing iterations have no effect '
                       '(checked per path: no heap write; no break/return/global; names bound in the body are unusable '
                       'afterwards) completes iff its body completes on every element and otherwise ends with the exception '
                       'of the first element on which the body raises (induction over the list, done by the rule, not by the '
                       'solver); facts of completed loops are re-established on a later witness by re-running the body under '
                       'the local variables saved when the loop ran and the CURRENT heap (assumed: the body reads no heap '
                       'location written in between -- in the verified code the bodies read class-level tables only)')
        # copy statements `<receiver>.append(<loop variable>)` directly in the body are taken out and accounted for by the rule:
        # the receiver (names / attributes not bound in the body, so the same object in every iteration) must be an empty
        # list at loop entry; after a loop that completes it holds exactly the elements of L in order; after a loop that
        # raised it holds an unknown prefix (any later use of it is outside the rule)
        rest, receivers = [], []
        for st in s.body:
            c = st.value if isinstance(st, ast.Expr) else None
            if isinstance(c, ast.Call) and isinstance(c.func, ast.Attribute) and c.func.attr == 'append' and not c.keywords \
                    and len(c.args) == 1 and isinstance(c.args[0], ast.Name) and isinstance(s.target, ast.Name) \
                    and c.args[0].id == s.target.id:
                r = c.func.value
                for node in ast.walk(r):
                    if not isinstance(node, (ast.Name, ast.Attribute, ast.Load)) or isinstance(node, ast.Name) and node.id in bound:
                        raise Unsupported('loop rule: receiver of the copy statement is not a loop-invariant name/attribute path')
                receivers.append(r)
            else:
                rest.append(st)
        targets = []
        for r in receivers:
            T = self.eval(r, frame)
            if not isinstance(T, PList) or isinstance(T, PGenList) or T.items or T is L or any(T is t for t in targets):
                raise Unsupported('loop rule: the list the loop copies into is not a distinct empty list at loop entry')
            targets.append(T)
        body = (s.target, rest)
        n = L.n.t
        which = self.ctx.choose([n == 0, n > 0, n > 0], 'loop over a list of unknown length: empty / completes / raises')
        if which == 0:
            return
        if which == 1:
            saved_locals = dict(frame.locals)      # the names the body reads (field name, tables ...) as they are NOW
            self._gen_body_once(body, L.gen, frame, 'complete')
            L.univ.append(('loop', body, frame, saved_locals))
            for nm in bound:
                frame.locals[nm] = POISON
            for T in targets:
                self._become_genlist(T, L.n, L.gen, L.new_elem, L.core)
            return
        for T in targets:
            self._become_genlist(T, L.n, L.gen, L.new_elem, dict(wit=[], univ=[], dead=True))
        w = self.gen_witness(L)
        self._gen_body_once(body, w, frame, 'raise')

    def _become_genlist(self, T, n, gen, new_elem, core):
        """in place (aliases keep pointing at it): the list T now has unknown length"""
        self.ctx.mutations += 1
        T.__dict__.pop('items', None)
        T.__class__ = PGenList
        T.n, T.gen, T.new_elem, T.core = n, gen, new_elem, core

    def gen_witness(self, L):
        """a fresh element of L: everything that is known of EVERY element (loops that completed, branch_all) holds of it"""
        w = L.new_elem()
        for u in list(L.univ):
            if u[0] == 'pred':
                self.ctx.assume(as_z3_bool(u[1](w)))
                continue
            _, s0, f0, then = u
            # re-run under the local variables of the time the loop ran (an enclosing loop may have moved on since)
            now = f0.locals
            f0.locals = dict(then)
            try:
                self._gen_body_once(s0, w, f0, 'complete')
            finally:
                f0.locals = now
        L.wit.append(w)
        return w

    def branch_all(self, L, pred):
        """for contracts / summaries: decide `every element of L satisfies pred` as a branch. True: pred becomes a fact about
        the generic element (under n > 0) and every witness; False: a fresh witness element violates pred."""
        n = L.n.t
        known = [as_z3_bool(pred(w)) for w in L.wit]
        allc = z3.And(z3.Implies(n > 0, as_z3_bool(pred(L.gen))), *known)
        which = self.ctx.choose([allc, n > 0], 'every element of a list of unknown length satisfies the predicate?')
        if which == 0:
            L.univ.append(('pred', pred))
            return True
        w = self.gen_witness(L)
        self.ctx.assume(z3.Not(as_z3_bool(pred(w))))
        return False

    def st_With(self, s, frame):
        return self.models.with_stmt(self, s, frame)

    def st_Try(self, s, frame):
        def run_finally():
            self.exec_block(s.finalbody, frame)

        try:
            try:
                self.exec_block(s.body, frame)
            except PyRaise as pr:
                handled = False
                for h in s.handlers:
                    if h.type is None:
                        match = True
                    else:
                        t = self.eval(h.type, frame)
                        ts = t if isinstance(t, tuple) else (t,)
                        match = any(isinstance(x, type) and issubclass(pr.exc.cls, x) for x in ts)
                    if match:
                        handled = True
                        if h.name:
                            frame.locals[h.name] = pr.exc
                        prev = getattr(frame, 'handling', None)
                        frame.handling = pr.exc
                        try:
                            self.exec_block(h.body, frame)
                        finally:
                            frame.handling = prev
                            if h.name:
                                frame.locals.pop(h.name, None)
                        break
                if not handled:
                    raise
            else:
                self.exec_block(s.orelse, frame)
        except (PyRaise, ReturnSig, BreakSig, ContinueSig):
            if s.finalbody:
                run_finally()     # a return/raise inside finally overrides -- python semantics
            raise
        else:
            if s.finalbody:
                run_finally()

    # =================================================================================== iteration
    def iterate(self, v):
        """python iteration protocol over modelled values (a generator, live for lists and dict views)"""
        if isinstance(v, AnyVal):
            # 0, 1 or 2 elements: sound for properties whose loop bodies do not touch the tracked ghost state
            self.any_op(f'iter({v.label})', result=False)
            n = self.ctx.choose([z3.BoolVal(True)] * 3, 'iterations of a loop over an unknown collection')
            for i in range(n):
                self.any_op(f'next({v.label})', result=False)
                yield AnyVal(f'{v.label}[{i}]')
            return
        if isinstance(v, PList):
            i = 0
            while i < len(v.items):
                yield v.items[i]
                i += 1
            return
        if isinstance(v, tuple):
            yield from v
            return
        if isinstance(v, PSet):
            ver = v.version
            for x in list(v.items):
                if v.version != ver:
                    self.raise_(RuntimeError, 'Set changed size during iteration')
                yield x
            return
        if isinstance(v, PDict):
            v = DictView(v, 'keys')
        if isinstance(v, DictView):
            d = v.d
            keys = self.dict_keys_now(d)
            ver = d.version
            for k in keys:
                if d.version != ver:
                    self.raise_(RuntimeError, 'dictionary changed size during iteration')
                if v.kind == 'keys':
                    yield k
                elif v.kind == 'values':
                    yield d.e[k][1]
                else:
                    yield (k, d.e[k][1])
            if d.version != ver:
                # CPython detects the size change on the *next* __next__ call, also after the last element
                if len(self.dict_keys_now(d)) != len(keys):
                    self.raise_(RuntimeError, 'dictionary changed size during iteration')
            return
        if isinstance(v, str):
            yield from v
            return
        if isinstance(v, range):
            yield from v
            return
        if isinstance(v, PObj):
            m = self.find_method(v.cls, '__iter__')
            if m is not None:
                yield from self.iterate(self.call(m, [v], {}))
                return
        if isinstance(v, type) and issubclass(v, enum.Enum):
            yield from list(v)
            return
        if hasattr(v, '__pyvc_iter__'):
            yield from v.__pyvc_iter__(self)
            return
        if v is None or isinstance(v, (int, float, bool)):
            self.raise_(TypeError, f'{type(v).__name__} object is not iterable')
        raise Unsupported(f'iteration over {type(v).__name__} ({v!r:.60})')

    # =================================================================================== expressions
    def eval(self, e, frame):
        m = getattr(self, 'ex_' + type(e).__name__, None)
        if m is None:
            raise Unsupported(f'expression {type(e).__name__} (line {e.lineno})')
        return m(e, frame)

    def ex_Constant(self, e, frame):
        if isinstance(e.value, (bytes, complex)) or e.value is Ellipsis:
            raise Unsupported('bytes/complex/ellipsis constant')
        return e.value

    def lookup(self, name, frame):
        f = frame
        while f is not None:
            if name in f.locals and name not in f.global_names:
                if f.locals[name] is POISON:
                    raise Unsupported(f'loop rule: {name} is bound inside a loop over a list of unknown length and read after it')
                return f.locals[name]
            f = f.parent
        if name in frame.globs:
            return self.lift(frame.globs[name])
        if hasattr(builtins, name):
            return getattr(builtins, name)
        self.raise_(NameError, name)

    def ex_Name(self, e, frame):
        return self.lookup(e.id, frame)

    @staticmethod
    def mangle(name, frame):
        if name.startswith('__') and not name.endswith('__') and frame.defcls is not None:
            return '_' + frame.defcls.__name__.lstrip('_') + name
        return name

    def ex_Attribute(self, e, frame):
        return self.getattr_(self.eval(e.value, frame), self.mangle(e.attr, frame))

    def ex_Subscript(self, e, frame):
        c = self.eval(e.value, frame)
        if isinstance(e.slice, ast.Slice):
            lo = self.eval(e.slice.lower, frame) if e.slice.lower is not None else None
            hi = self.eval(e.slice.upper, frame) if e.slice.upper is not None else None
            st = self.eval(e.slice.step, frame) if e.slice.step is not None else None
            return self.models.getslice(self, c, lo, hi, st)
        k = self.eval(e.slice, frame)
        return self.models.getitem(self, c, k)

    def ex_Tuple(self, e, frame):
        return tuple(self.eval_seq(e.elts, frame))

    def ex_List(self, e, frame):
        return PList(self.eval_seq(e.elts, frame))

    def ex_Set(self, e, frame):
        return self.models.make_set(self, self.eval_seq(e.elts, frame))

    def eval_seq(self, elts, frame):
        out = []
        for x in elts:
            if isinstance(x, ast.Starred):
                out.extend(self.iterate(self.eval(x.value, frame)))
            else:
                out.append(self.eval(x, frame))
        return out

    def ex_Dict(self, e, frame):
        d = PDict()
        for k, v in zip(e.keys, e.values):
            if k is None:
                src = self.eval(v, frame)
                if not isinstance(src, PDict):
                    raise Unsupported('** of non-dict')
                for kk in self.dict_keys_now(src):
                    self.dict_set(d, kk, src.e[kk][1])
            else:
                self.dict_set(d, self.eval(k, frame), self.eval(v, frame))
        return d

    def ex_JoinedStr(self, e, frame):
        parts = []
        for p in e.values:
            if isinstance(p, ast.Constant):
                parts.append(p.value)
            else:
                v = self.eval(p.value, frame)
                if p.format_spec is not None:
                    spec = self.eval(p.format_spec, frame)
                    parts.append(self.models.format_value(self, v, p.conversion, spec))
                else:
                    parts.append(self.models.format_value(self, v, p.conversion, ''))
        return self.models.concat_str(self, parts)

    def ex_FormattedValue(self, e, frame):
        v = self.eval(e.value, frame)
        return self.models.format_value(self, v, e.conversion, '')

    def ex_Lambda(self, e, frame):
        clo = Closure(e, frame, frame.globs, frame.defcls)
        clo.defaults = [self.eval(d, frame) for d in e.args.defaults]
        clo.kwdefaults = {p.arg: self.eval(d, frame) for p, d in zip(e.args.kwonlyargs, e.args.kw_defaults) if d is not None}
        return clo

    def ex_UnaryOp(self, e, frame):
        v = self.eval(e.operand, frame)
        if isinstance(e.op, ast.Not):
            return sym_not(self.truthy(v))
        if isinstance(e.op, ast.USub):
            return self.binop(ast.Sub(), 0, v)
        if isinstance(e.op, ast.UAdd):
            return self.binop(ast.Add(), 0, v)
        raise Unsupported('unary ~')

    def speculate(self, node, guard_t, frame):
        """evaluate a call-free expression under a guard; returns (ok, value)"""
        ctx = self.ctx
        if id(node) in ctx.shared.no_spec or not call_free(node):
            return False, None
        before = ctx.mutations
        ctx.guards.append(guard_t)
        try:
            v = self.eval(node, frame)
        except (PyRaise, CannotConvert):
            if ctx.mutations != before:
                ctx.shared.no_spec.add(id(node))
                raise Restart()
            return False, None
        finally:
            ctx.guards.pop()
        if ctx.mutations != before:
            ctx.shared.no_spec.add(id(node))
            raise Restart()
        return True, v

    def ex_BoolOp(self, e, frame):
        is_and = isinstance(e.op, ast.And)
        v = self.eval(e.values[0], frame)
        for nxt in e.values[1:]:
            t = self.truthy(v)
            if not isinstance(t, Sym):
                if bool(t) != is_and:
                    return v
                v = self.eval(nxt, frame)
                continue
            # symbolic: value is (v if t else nxt) for `or`, (nxt if t else v) for `and`
            g = t.t if is_and else z3.Not(t.t)
            ok, w = self.speculate(nxt, g, frame)
            if ok:
                try:
                    v = ite_value(g, w, v)
                    continue
                except Unsupported:
                    pass
            if self.ctx.branch(t) != is_and:
                return v
            v = self.eval(nxt, frame)
        return v

    def ex_IfExp(self, e, frame):
        t = self.truthy(self.eval(e.test, frame))
        if not isinstance(t, Sym):
            return self.eval(e.body if t else e.orelse, frame)
        ok1, a = self.speculate(e.body, t.t, frame)
        if ok1:
            ok2, b = self.speculate(e.orelse, z3.Not(t.t), frame)
            if ok2:
                try:
                    return ite_value(t.t, a, b)
                except Unsupported:
                    pass
        if self.ctx.branch(t):
            return self.eval(e.body, frame)
        return self.eval(e.orelse, frame)

    def ex_Compare(self, e, frame):
        left = self.eval(e.left, frame)
        result = True
        for op, rn in zip(e.ops, e.comparators):
            if result is False:
                return False
            if isinstance(result, Sym):
                # chained comparison with symbolic prefix: evaluate the rest speculatively
                ok, right = self.speculate(rn, result.t, frame)
                if not ok:
                    if not self.ctx.branch(result):
                        return False
                    result = True
                    right = self.eval(rn, frame)
            else:
                right = self.eval(rn, frame)
            r = self.compare(op, left, right)
            result = sym_and(result, r)
            left = right
        return result

    def compare(self, op, a, b):
        if (isinstance(a, AnyVal) or isinstance(b, AnyVal)) and not isinstance(op, (ast.Is, ast.IsNot, ast.Eq, ast.NotEq)):
            self.any_op(type(op).__name__, result=False)
            return self.ctx.fresh('anybool', 'bool')
        if isinstance(op, ast.Eq):
            return self.py_eq(a, b)
        if isinstance(op, ast.NotEq):
            if isinstance(a, PObj):
                m = self.find_method(a.cls, '__ne__')
                if m is not None:
                    return self.truthy(self.call(m, [a, b], {}))
            return sym_not(self.py_eq(a, b))
        if isinstance(op, ast.Is):
            return self.is_(a, b)
        if isinstance(op, ast.IsNot):
            return sym_not(self.is_(a, b))
        if isinstance(op, ast.In):
            return self.models.contains(self, b, a)
        if isinstance(op, ast.NotIn):
            return sym_not(self.models.contains(self, b, a))
        name = {ast.Lt: '__lt__', ast.LtE: '__le__', ast.Gt: '__gt__', ast.GtE: '__ge__'}[type(op)]
        refl = {'__lt__': '__gt__', '__le__': '__ge__', '__gt__': '__lt__', '__ge__': '__le__'}[name]
        if isinstance(a, PObj):
            m = self.find_method(a.cls, name)
            if m is not None:
                return self.truthy_keep(self.call(m, [a, b], {}))
        if isinstance(b, PObj):
            m = self.find_method(b.cls, refl)
            if m is not None:
                return self.truthy_keep(self.call(m, [b, a], {}))
        return self.models.order(self, name, a, b)

    def truthy_keep(self, v):
        return self.truthy(v)

    def ex_BinOp(self, e, frame):
        a = self.eval(e.left, frame)
        b = self.eval(e.right, frame)
        return self.binop(e.op, a, b)

    def binop(self, op, a, b):
        if isinstance(a, AnyVal) or isinstance(b, AnyVal):
            return self.any_op(type(op).__name__)
        name = {ast.Add: '__add__', ast.Sub: '__sub__', ast.Mult: '__mul__'}.get(type(op))
        if isinstance(a, PObj) and name:
            m = self.find_method(a.cls, name)
            if m is not None:
                return self.call(m, [a, b], {})
        if isinstance(b, PObj) and name:
            m = self.find_method(b.cls, '__r' + name[2:])
            if m is not None:
                return self.call(m, [b, a], {})
        return self.models.arith(self, op, a, b)

    def ex_Call(self, e, frame):
        # super() needs the frame
        if isinstance(e.func, ast.Name) and e.func.id == 'super' and not e.args:
            if frame.defcls is None or frame.first_param is None:
                raise Unsupported('super() outside of a method')
            return SuperProxy(frame.defcls, frame.locals[frame.first_param])
        fn = self.eval(e.func, frame)
        args = self.eval_seq(e.args, frame)
        kwargs = {}
        for kw in e.keywords:
            if kw.arg is None:
                src = self.eval(kw.value, frame)
                if not isinstance(src, PDict):
                    raise Unsupported('** of a non-dict value')
                for k in self.dict_keys_now(src):
                    kwargs[k] = src.e[k][1]
            else:
                kwargs[kw.arg] = self.eval(kw.value, frame)
        if fn is builtins.locals or fn is builtins.globals or fn is builtins.eval or fn is builtins.exec:
            raise Unsupported('locals()/globals()/eval/exec')
        return self.call(fn, args, kwargs)

    # comprehensions ---------------------------------------------------------------------------
    def _comp(self, generators, frame, emit):
        inner = Frame(frame.globs, frame.defcls, frame, None)

        def rec(i):
            if i == len(generators):
                emit(inner)
                return
            g = generators[i]
            src = self.eval(g.iter, inner if i else frame)
            for item in self.iterate(src):
                self.assign(g.target, item, inner)
                ok = True
                for cond in g.ifs:
                    if not self.ctx.branch(self.truthy(self.eval(cond, inner))):
                        ok = False
                        break
                if ok:
                    rec(i + 1)
        rec(0)

    def ex_ListComp(self, e, frame):
        out = []
        self._comp(e.generators, frame, lambda fr: out.append(self.eval(e.elt, fr)))
        return PList(out)

    def ex_GeneratorExp(self, e, frame):
        """a generator expression is consumed lazily: an exception raised while computing its k-th element surfaces where the
        consumer asks for that element (possibly inside a try block, after the consumer has processed the elements before it).
        Elements are computed eagerly here (their expressions are assumed free of side effects on the consumer's state); a
        failure is kept and re-raised at the right position."""
        out = []
        try:
            self._comp(e.generators, frame, lambda fr: out.append(self.eval(e.elt, fr)))
        except PyRaise as pr:
            # python evaluates the outermost iterable eagerly: an error there is raised at once
            try:
                self.eval(e.generators[0].iter, frame)
            except PyRaise:
                raise pr
            return DeferredRaiseGen(out, pr.exc)
        return PList(out)

    def ex_SetComp(self, e, frame):
        out = []
        self._comp(e.generators, frame, lambda fr: out.append(self.eval(e.elt, fr)))
        return self.models.make_set(self, out)

    def ex_DictComp(self, e, frame):
        d = PDict()
        self._comp(e.generators, frame, lambda fr: self.dict_set(d, self.eval(e.key, fr), self.eval(e.value, fr)))
        return d
