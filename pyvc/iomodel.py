"""
pyvc.iomodel -- ASSUMED contracts of the text codecs and of file I/O used by graph serialization (property C01).

The GraphML writer / reader (networkx), the node-link JSON form (networkx + json) and temporary files are library code outside
the verifier's reach.  They are modelled as an inverse pair over an abstract text value:

    GraphText(kind, graph)       the text '\\n'.join(nx.generate_graphml(graph))  (kind 'graphml')
                                 or json.dumps(nx.node_link_data(graph))         (kind 'json')

    nx.read_graphml(file with a GraphText('graphml', G))      == G with every node key n replaced by str(n), attribute maps,
                                                                 edges and edge maps unchanged (values are str or int)
    nx.read_graphml(file with json text)                      raises (not XML)
    node_link_graph(json.loads(GraphText('json', G)))         == G (node keys, attribute maps, edges unchanged)
    json.loads(GraphText('graphml', ..))                      raises JSONDecodeError

These assumptions are exactly what the bounded native check C01/TextCodec_real exercises on the real libraries with hostile
strings on every run.  Files are a ghost map name -> text (ctx.ghost['fs']); a temporary file disappears on leaving its `with`.
"""
import json
import tempfile
import builtins
import xml.etree.ElementTree as _ET

import networkx as nx

from .values import PObj, PDict, PList, Unsupported, is_sym
from . import models
from .models import model
from .nxmodel import NXGraph, _raise

_TRUST = ('text codecs: nx.generate_graphml/read_graphml and node_link_data+json.dumps / json.loads+node_link_graph assumed '
          'mutually inverse on graphs whose attribute values are str/int (GraphML: node keys come back as str); files: ghost '
          'map name -> text (pyvc/iomodel.py); both assumptions exercised natively by C01/TextCodec_real')


class GraphText:
    def __init__(self, kind, graph, neo4j=False):
        self.kind, self.graph, self.neo4j = kind, graph, neo4j

    def __repr__(self):
        return f'GraphText({self.kind}, {self.graph!r}, neo4j={self.neo4j})'


class GraphMLLines:
    """the generator nx.generate_graphml(G) returns"""
    def __init__(self, graph):
        self.graph = graph

    def pyvc_join(self, I, sep):
        if sep != '\n':
            raise Unsupported('generate_graphml lines joined with something else than a newline')
        return GraphText('graphml', self.graph)


class NodeLinkData:
    def __init__(self, graph):
        self.graph = graph

    def pyvc_json_dumps(self, I, kw):
        if kw:
            raise Unsupported('json.dumps(node_link_data, options)')
        return GraphText('json', self.graph)


def fs(I):
    return I.ctx.ghost.setdefault('fs', {})


class GhostFile:
    n = 0

    def __init__(self, name, mode, temporary=False):
        self.name, self.mode, self.temporary, self.closed = name, mode, temporary, False

    def pyvc_getattr(self, I, name):
        if name == 'name':
            return self.name
        if name == 'closed':
            return self.closed
        from .values import BuiltinMethod
        return BuiltinMethod(self, name)

    def pyvc_method(self, I, name, args, kw):
        if name == '__enter__':
            return self
        if name in ('__exit__', 'close'):
            self.closed = True
            if self.temporary:
                fs(I).pop(self.name, None)
            return None
        if name == 'write':
            if 'w' not in self.mode:
                _raise(I, OSError, 'not writable')
            (text,) = args
            if fs(I).get(self.name) not in (None, ''):
                raise Unsupported('several writes to one file')
            if not isinstance(text, (GraphText, str)) and not (is_sym(text) and text.k == 'str'):
                _raise(I, TypeError, 'write() argument must be str')
            fs(I)[self.name] = text
            return 0
        if name == 'flush':
            return None
        if name == 'read':
            if 'r' not in self.mode:
                _raise(I, OSError, 'not readable')
            return fs(I)[self.name]
        raise Unsupported(f'file.{name}')


@model(tempfile.NamedTemporaryFile)
def m_named_tmp(I, args, kw):
    I.ctx.trust(_TRUST)
    GhostFile.n = I.ctx.counters['tmpfile'] = I.ctx.counters.get('tmpfile', 0) + 1
    name = f'/ghost/tmp{GhostFile.n}{kw.get("suffix", "")}'
    fs(I)[name] = ''
    return GhostFile(name, kw.get('mode', args[0] if args else 'w+b'), temporary=True)


@model(builtins.open)
def m_open(I, args, kw):
    I.ctx.trust(_TRUST)
    name = args[0]
    mode = kw.get('mode', args[1] if len(args) > 1 else 'r')
    if is_sym(name) or not isinstance(name, str):
        raise Unsupported('open() of a symbolic file name')
    if 'w' in mode:
        fs(I)[name] = ''
    elif name not in fs(I):
        _raise(I, FileNotFoundError, name)
    return GhostFile(name, mode)


def _copy(I, G, keymap=None):
    H = G.copy_graph(I, keymap)
    # attribute maps are fresh dicts in the decoded graph (copy_graph shares none of them with the store)
    return H


@model(nx.generate_graphml)
def m_generate_graphml(I, args, kw):
    I.ctx.trust(_TRUST)
    G = args[0]
    if not isinstance(G, NXGraph):
        raise Unsupported('generate_graphml of a non-graph')
    return GraphMLLines(_copy(I, G))


@model(nx.readwrite.node_link_data, nx.node_link_data)
def m_node_link_data(I, args, kw):
    I.ctx.trust(_TRUST)
    G = args[0]
    if not isinstance(G, NXGraph) or kw or len(args) > 1:
        raise Unsupported('node_link_data options / non-graph')
    return NodeLinkData(_copy(I, G))


@model(nx.readwrite.node_link_graph, nx.node_link_graph)
def m_node_link_graph(I, args, kw):
    data = kw.get('data', args[0] if args else None)
    if not isinstance(data, NodeLinkData):
        raise Unsupported('node_link_graph of something that is not node-link data')
    return _copy(I, data.graph)


@model(nx.read_graphml)
def m_read_graphml(I, args, kw):
    I.ctx.trust(_TRUST)
    name = args[0]
    if is_sym(name) or not isinstance(name, str):
        raise Unsupported('read_graphml of a symbolic file name')
    if name not in fs(I):
        _raise(I, FileNotFoundError, name)
    text = fs(I)[name]
    if isinstance(text, GraphText) and text.kind == 'graphml':
        return _copy(I, text.graph, lambda n: str(n))
    if isinstance(text, GraphText) or isinstance(text, str):
        _raise(I, _ET.ParseError, 'not well-formed (invalid token)')
    raise Unsupported('read_graphml of arbitrary text')


def json_loads_hook(I, s):
    """json.loads of a graph text"""
    if s.kind == 'json':
        return NodeLinkData(_copy(I, s.graph))
    raise models._interp_mod().PyRaise(PObj(json.JSONDecodeError, {'args': ('Expecting value',)}))


def neo4j_markup_summary(I, args, kwargs):
    """ASSUMED contract of GraphML.networkx_to_neo4j (lxml code, outside the verifier's reach; exercised natively by
    C01/Neo4jMarkup_real): the same GraphML content with label markup added for every node and edge; raises AttributeError when
    a node or an edge carries no Class."""
    (text,) = args
    if not isinstance(text, GraphText) or text.kind != 'graphml':
        raise Unsupported('networkx_to_neo4j of something that is not GraphML text')
    G = text.graph
    for n, (_, d) in G.node.e.items():
        if not I.dict_present(d, 'Class'):
            I.raise_(AttributeError, "'NoneType' object has no attribute 'text'")
    for e, (_, d) in G.edge.e.items():
        if not I.dict_present(d, 'Class'):
            I.raise_(AttributeError, "'NoneType' object has no attribute 'text'")
    return GraphText('graphml', G, neo4j=True)
