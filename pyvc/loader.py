"""
pyvc.loader -- locate the function object the interpreter would call and hand out its *real* source AST.
Nothing is copied by hand: the AST comes from inspect.getsourcefile()/co_firstlineno of the live function.
"""
import ast
import hashlib
import importlib
import inspect
import sys
import types

_file_cache = {}
_func_cache = {}


class LoadError(Exception):
    pass


def _file_ast(path):
    if path not in _file_cache:
        with open(path, 'r') as f:
            src = f.read()
        tree = ast.parse(src, filename=path)
        _file_cache[path] = (tree, src.splitlines(keepends=True))
    return _file_cache[path]


def resolve(target):
    """'pkg.mod:Class.attr' -> (raw attribute as stored in the class dict / module, owner class or None)"""
    modname, _, qual = target.partition(':')
    try:
        obj = importlib.import_module(modname)
    except Exception as e:  # pragma: no cover
        raise LoadError(f'cannot import {modname}: {e!r}')
    owner = None
    parts = qual.split('.') if qual else []
    for i, p in enumerate(parts):
        if inspect.isclass(obj):
            owner = obj
            found = None
            for klass in obj.__mro__:
                # name-mangled private members
                for cand in (p, f'_{klass.__name__}{p}' if p.startswith('__') and not p.endswith('__') else p):
                    if cand in klass.__dict__:
                        found = klass.__dict__[cand]
                        owner = klass
                        break
                if found is not None:
                    break
            if found is None:
                raise LoadError(f'{target}: {p} not found in {obj}')
            obj = found
        else:
            if not hasattr(obj, p):
                raise LoadError(f'{target}: {p} not found in {obj}')
            obj = getattr(obj, p)
    return obj, owner


def unwrap(obj):
    """raw class-dict entry -> plain function"""
    if isinstance(obj, (staticmethod, classmethod)):
        return obj.__func__
    if isinstance(obj, property):
        return obj.fget
    return obj


def func_info(func):
    """-> dict(node, file, first, last, sha, defcls) for a python function object (incl. lambdas)"""
    key = id(func.__code__)
    if key in _func_cache:
        return _func_cache[key]
    code = func.__code__
    path = code.co_filename
    tree, lines = _file_ast(path)
    want = code.co_firstlineno
    is_lambda = code.co_name == '<lambda>'
    cands = []
    for node in ast.walk(tree):
        if is_lambda and isinstance(node, ast.Lambda) and node.lineno == want:
            cands.append(node)
        elif not is_lambda and isinstance(node, (ast.FunctionDef, ast.AsyncFunctionDef)) and node.name == code.co_name:
            first = min([node.lineno] + [d.lineno for d in node.decorator_list])
            if first == want or node.lineno == want:
                cands.append(node)
    if not cands:
        raise LoadError(f'no AST node for {func!r} at {path}:{want}')
    if len(cands) > 1:
        # several lambdas on one line: match by column of the first instruction
        try:
            pos = [p for p in code.co_positions() if p[0] is not None]
            col = min(p[2] for p in pos if p[0] == want and p[2] is not None)
            best = [c for c in cands if c.col_offset <= col <= (c.end_col_offset or 10 ** 9)]
            best.sort(key=lambda c: col - c.col_offset)
            if best:
                cands = [best[0]]
        except Exception:
            pass
        if len(cands) > 1:
            raise LoadError(f'ambiguous AST node for {func!r} at {path}:{want}')
    node = cands[0]
    first = min([node.lineno] + [d.lineno for d in getattr(node, 'decorator_list', [])])
    last = node.end_lineno
    text = ''.join(lines[first - 1:last])
    defcls = None
    qn = getattr(func, '__qualname__', '')
    if '.' in qn and '<locals>' not in qn:
        mod = sys.modules.get(func.__module__)
        obj = mod
        try:
            for p in qn.split('.')[:-1]:
                if hasattr(obj, p):
                    obj = getattr(obj, p)
                elif inspect.isclass(obj) and p.startswith('__'):
                    obj = getattr(obj, '_' + obj.__name__.lstrip('_') + p)     # private nested class
                else:
                    raise AttributeError(p)
            if inspect.isclass(obj):
                defcls = obj
        except AttributeError:
            defcls = None
    info = dict(node=node, file=path, first=first, last=last,
                sha=hashlib.sha256(text.encode()).hexdigest()[:16], defcls=defcls,
                qualname=f'{func.__module__}:{qn}')
    _func_cache[key] = info
    return info


def is_python_function(f):
    return isinstance(f, types.FunctionType)
