"""
pyvc.harness -- contracts, path exploration, obligation discharge, replay on the real code, CPython cross-check.
"""
import copy
import json
import os
import math
import time
import traceback

import z3

from . import loader, spec
from .interp import (Interp, Ctx, Shared, PyRaise, Restart, Infeasible, CannotConvert)
from .values import (Sym, PObj, PList, PGenList, PDict, PSet, DictView, JsonText, BoundMethod, BuiltinMethod, Closure, Foreign,
                     Opaque, Unsupported, LockVal, AnyVal, V, mk, kind_of, is_sym, z3_of, decode_z3_string)
from .spec import WILD, Pre, Post, SpecError


# =========================================================================================== generators
class Gen:
    """creates the symbolic inputs of a contract (deterministic names, so terms agree across paths)"""

    def __init__(self, ctx):
        self.ctx = ctx

    def _new(self, name, kind):
        s = self.ctx.fresh(name, kind)
        self.ctx.inputs.append((name, s))
        return s

    def int(self, name, lo=None, hi=None):
        s = self._new(name, 'int')
        if lo is not None:
            self.ctx.assume(s.t >= lo)
        if hi is not None:
            self.ctx.assume(s.t <= hi)
        return s

    def bool(self, name):
        return self._new(name, 'bool')

    def real(self, name):
        return self._new(name, 'real')

    def str(self, name):
        return self._new(name, 'str')

    def text(self, name):
        """a string over the abstract alphabet (ASCII + one representative per unicode class block, see models)"""
        from . import models
        s = self._new(name, 'str')
        self.ctx.assume(z3.InRe(s.t, models.abs_alphabet_re()))
        self.ctx.trust('minterm abstraction: symbolic strings range over ASCII + one representative per (\\d,\\w,\\s)-block of the '
                       'non-ASCII code points (blocks computed with the real re engine); sound because the code inspects strings only '
                       'through such classes, ASCII literals, length, split on ASCII and int()')
        return s

    def genlist(self, name, elem=None):
        """a list of ANY length (no bound) of elements produced by `elem(name)` (default: texts); see values.PGenList"""
        from .values import PGenList
        elem = elem or self.text
        n = self.int(name + '_len', lo=0)
        gen = elem(name + '_any')
        ctx = self.ctx
        k = [0]

        def new_elem():
            k[0] += 1
            save = len(ctx.inputs)
            w = elem(f'{name}_wit{k[0]}')
            del ctx.inputs[save:]          # a witness is chosen by the path, it is not an input
            return w
        return PGenList(n, gen, new_elem)

    def atom(self, name):
        from .values import UUID_RANGE
        a = self._new(name, 'atom')
        self.ctx.assume(a.t > UUID_RANGE)       # never one of the identifiers the program generates itself (uuid4)
        self.ctx.atoms.append(a)
        return a

    def U(self, name, allowed=('none', 'bool', 'int', 'real', 'str')):
        s = self._new(name, 'U')
        tests = {'none': V.is_none, 'bool': V.is_b, 'int': V.is_i, 'real': V.is_f, 'str': V.is_s, 'atom': V.is_a,
                 'list': V.is_l}
        self.ctx.assume(z3.Or(*[tests[a](s.t) for a in allowed]))
        return s

    def obj(self, cls, **fields):
        return PObj(cls, dict(fields))

    def assume(self, c):
        self.ctx.assume(c)

    def choice(self, n, label=''):
        """finite case split made by the contract itself (which field, which type ...)"""
        return self.ctx.choose([z3.BoolVal(True)] * n, label)

    def pick(self, options, label=''):
        options = list(options)
        return options[self.choice(len(options), label)]


# =========================================================================================== heap utilities
def snapshot(v, memo=None):
    """deep copy of interpreter values preserving aliasing; scalars and Syms are shared"""
    if memo is None:
        memo = {}
    if id(v) in memo:
        return memo[id(v)]
    if type(v).__name__ == 'NXGraph':
        from .nxmodel import NXGraph
        g = NXGraph()
        memo[id(v)] = g
        g.node = snapshot(v.node, memo)
        g.edge = snapshot(v.edge, memo)
        g.adj_order = {k: list(x) for k, x in v.adj_order.items()}
        g.version = v.version
        return g
    if type(v).__name__ == 'PDefaultDict':
        from .nxmodel import PDefaultDict
        d = PDefaultDict(v.factory)
        memo[id(v)] = d
        for k, (g, x) in v.e.items():
            d.e[k] = [g, snapshot(x, memo)]
        return d
    if isinstance(v, LockVal):
        import copy as _copy
        lk = _copy.copy(v)
        lk.errors = list(v.errors)
        lk.trace = list(v.trace)
        memo[id(v)] = lk
        return lk
    if isinstance(v, PObj):
        o = PObj(v.cls)
        memo[id(v)] = o
        o.d = snapshot(v.d, memo)
        return o
    if isinstance(v, PGenList):
        l = PGenList(v.n, v.gen, v.new_elem, core=v.core)     # immutable under the supported operations
        memo[id(v)] = l
        return l
    if isinstance(v, PList):
        l = PList()
        memo[id(v)] = l
        l.items = [snapshot(x, memo) for x in v.items]
        return l
    if isinstance(v, PSet):
        s = PSet()
        memo[id(v)] = s
        s.items = [snapshot(x, memo) for x in v.items]
        return s
    if isinstance(v, PDict):
        d = PDict()
        memo[id(v)] = d
        for k, (g, x) in v.e.items():
            d.e[snapshot(k, memo) if isinstance(k, PObj) else k] = [g, snapshot(x, memo)]
        return d
    if isinstance(v, tuple):
        return tuple(snapshot(x, memo) for x in v)
    if isinstance(v, dict):
        return {k: snapshot(x, memo) for k, x in v.items()}
    if isinstance(v, list):
        return [snapshot(x, memo) for x in v]
    return v


_OPAQUE_PREFIXES = ('text', 'strof', 'fmt')


def _mentions_opaque(t):
    stack = [t]
    seen = set()
    while stack:
        x = stack.pop()
        if x.get_id() in seen:
            continue
        seen.add(x.get_id())
        if z3.is_const(x) and x.decl().kind() == z3.Z3_OP_UNINTERPRETED:
            n = x.decl().name()
            if n.split('!')[0] in _OPAQUE_PREFIXES:
                return True
        stack.extend(x.children())
    return False


class _Null:
    """stand-in for opaque collaborators (loggers) in replays: every attribute is itself, every call returns itself"""

    def __getattr__(self, name):
        return self

    def __call__(self, *a, **k):
        return self

    def __bool__(self):
        return True

    def __deepcopy__(self, memo):
        return self


NULL_OBJECT = _Null()


class ReplayLock:
    """threading.Lock stand-in for replays (same acquire/release/locked behaviour, but copyable and never blocking:
    a second acquire is recorded as the deadlock it would be)"""

    def __init__(self, held=False):
        self.held = held
        self.deadlock = False

    def acquire(self, blocking=True, timeout=-1):
        if self.held:
            self.deadlock = True
            raise RuntimeError('deadlock: acquire of a lock that is already held')
        self.held = True
        return True

    def release(self):
        if not self.held:
            raise RuntimeError('release unlocked lock')
        self.held = False

    def locked(self):
        return self.held


class Reifier:
    """interpreter value + z3 model -> real python value"""

    def __init__(self, model):
        self.model = model
        self.memo = {}

    def ev(self, t):
        return self.model.eval(t, model_completion=True)

    def scalar(self, s):
        k = s.k
        if k == 'str' and _mentions_opaque(s.t):
            return WILD
        t = self.ev(s.t)
        if k == 'int':
            return t.as_long()
        if k == 'bool':
            return z3.is_true(t)
        if k == 'real':
            if z3.is_rational_value(t):
                return t.numerator_as_long() / t.denominator_as_long()
            return float(t.approx(20).as_fraction())
        if k == 'str':
            return decode_z3_string(t)
        if k == 'atom':
            if z3.is_const(s.t) and s.t.decl().name().split('!')[0] == 'uuid':
                return WILD
            from .values import atom_str
            return atom_str(t.as_long())
        # universal
        name = t.decl().name()
        if name == 'none':
            return None
        arg = t.arg(0)
        if name == 'b':
            return z3.is_true(arg)
        if name == 'i':
            return arg.as_long()
        if name == 'f':
            return arg.numerator_as_long() / arg.denominator_as_long()
        if name == 's':
            return decode_z3_string(arg)
        if name == 'a':
            from .values import atom_str
            return atom_str(arg.as_long())
        if name == 'l':
            return [f'@list{arg.as_long()}']      # an opaque list value: identified by its handle
        return WILD

    def guard(self, g):
        if g is True:
            return True
        return z3.is_true(self.ev(g))

    def __call__(self, v):
        if isinstance(v, Sym):
            return self.scalar(v)
        if v is None or isinstance(v, (bool, int, float, str)):
            return v
        if id(v) in self.memo:
            return self.memo[id(v)]
        if isinstance(v, PObj):
            if issubclass(v.cls, BaseException):
                o = v.cls.__new__(v.cls)
                self.memo[id(v)] = o
                return o
            o = v.cls.__new__(v.cls)
            self.memo[id(v)] = o
            for k, (g, x) in v.d.e.items():
                if self.guard(g):
                    o.__dict__[k] = self(x)
            return o
        if type(v).__name__ == 'NXGraph':
            from .nxmodel import to_real
            g = to_real(v, self)
            self.memo[id(v)] = g
            return g
        if type(v).__name__ == 'PDefaultDict':
            import collections
            d = collections.defaultdict(v.factory if not hasattr(v.factory, 'node') else None)
            self.memo[id(v)] = d
            for k, (g, x) in v.e.items():
                if self.guard(g):
                    d[self(k) if isinstance(k, (PObj, Sym)) else k] = self(x)
            return d
        if isinstance(v, LockVal):
            lk = ReplayLock(v.held)
            self.memo[id(v)] = lk
            return lk
        if isinstance(v, PGenList):
            # a concrete member of the family the path describes: min(n, 3) copies of the last witness (if the path has
            # one) else of the generic element -- the path depends on the list only through those
            n = self.ev(v.n.t).as_long()
            x = self(v.wit[-1] if v.wit else v.gen)
            l = [x] * min(n, 3)
            self.memo[id(v)] = l
            return l
        if isinstance(v, PList):
            l = []
            self.memo[id(v)] = l
            l.extend(self(x) for x in v.items)
            return l
        if isinstance(v, PSet):
            return set(self(x) for x in v.items)
        if isinstance(v, PDict):
            d = {}
            self.memo[id(v)] = d
            for k, (g, x) in v.e.items():
                if self.guard(g):
                    d[self(k) if isinstance(k, (PObj, Sym)) else k] = self(x)
            return d
        if isinstance(v, DictView):
            return getattr(self(v.d), v.kind)()
        if isinstance(v, tuple):
            return tuple(self(x) for x in v)
        if isinstance(v, list):
            return [self(x) for x in v]
        if isinstance(v, dict):
            return {k: self(x) for k, x in v.items()}
        if isinstance(v, JsonText):
            val = self(v.value)
            if contains_wild(val):
                return WILD
            return json.dumps(val, sort_keys=v.sort_keys)
        if isinstance(v, Foreign):
            return NULL_OBJECT           # loggers and the like: accepts every attribute / call
        if isinstance(v, (Opaque, Closure, BoundMethod, BuiltinMethod)):
            return WILD
        return v


def contains_wild(v):
    if v is WILD:
        return True
    if v is NULL_OBJECT:
        return False
    if isinstance(v, (list, tuple, set)):
        return any(contains_wild(x) for x in v)
    if isinstance(v, dict):
        return any(contains_wild(x) for x in v.values())
    return False


def deep_eq(a, b, path='', memo=None):
    """structural identity of two real values (types included); returns '' or a description of the first difference"""
    if a is WILD or b is WILD or a is NULL_OBJECT or b is NULL_OBJECT:
        return ''
    if memo is None:
        memo = set()
    if type(a) is not type(b):
        # a real Match object etc. against an opaque placeholder is handled above
        return f'{path}: type {type(a).__name__} vs {type(b).__name__} ({a!r:.80} vs {b!r:.80})'
    if isinstance(a, float):
        if a == b or math.isclose(a, b, rel_tol=1e-9, abs_tol=1e-12):
            return ''
        return f'{path}: {a!r} vs {b!r}'
    if isinstance(a, str) and (a.startswith('@uuid') or b.startswith('@uuid')):
        return ''          # generated identifiers: any string
    if a is None or isinstance(a, (bool, int, str)):
        return '' if a == b else f'{path}: {a!r:.80} vs {b!r:.80}'
    if (id(a), id(b)) in memo:
        return ''
    memo.add((id(a), id(b)))
    if isinstance(a, (list, tuple)):
        if len(a) != len(b):
            return f'{path}: length {len(a)} vs {len(b)} ({a!r:.80} vs {b!r:.80})'
        for i, (x, y) in enumerate(zip(a, b)):
            d = deep_eq(x, y, f'{path}[{i}]', memo)
            if d:
                return d
        return ''
    if isinstance(a, dict):
        ua = [k for k in a if isinstance(k, str) and k.startswith('@uuid')]
        ub = [k for k in b if isinstance(k, str) and k.startswith('@uuid')]
        if ua or ub:
            # generated identifiers used as keys: pair them with the keys the other side has and this side lacks, in order
            gen, other = (a, b) if ua else (b, a)
            ug = ua if ua else ub
            free = [k for k in other if k not in gen]
            if len(free) != len(ug):
                return f'{path}: keys {list(a.keys())!r:.120} vs {list(b.keys())!r:.120}'
            ren = dict(zip(ug, free))
            gen2 = {ren.get(k, k): v for k, v in gen.items()}
            a, b = (gen2, other) if ua else (other, gen2)
        if list(a.keys()) != list(b.keys()):
            if set(map(repr, a.keys())) != set(map(repr, b.keys())):
                return f'{path}: keys {list(a.keys())!r:.120} vs {list(b.keys())!r:.120}'
            # same keys in another order: python set iteration order is unspecified, so insertion orders that derive from
            # iterating a set legitimately differ between the model and CPython
        for k in a:
            d = deep_eq(a[k], b[k], f'{path}[{k!r}]', memo)
            if d:
                return d
        return ''
    if isinstance(a, (set, frozenset)):
        return '' if a == b else f'{path}: {a!r:.80} vs {b!r:.80}'
    if isinstance(a, BaseException):
        return ''
    if type(a).__name__ in ('Graph', 'DiGraph') and hasattr(a, 'nodes'):
        d = deep_eq({n: dict(x) for n, x in a.nodes(data=True)}, {n: dict(x) for n, x in b.nodes(data=True)}, path + '.nodes', memo)
        if d:
            return d
        ea = {frozenset((u, v)): dict(x) for u, v, x in a.edges(data=True)}
        eb = {frozenset((u, v)): dict(x) for u, v, x in b.edges(data=True)}
        if set(ea) != set(eb):
            return f'{path}.edges: {sorted(map(sorted, ea))} vs {sorted(map(sorted, eb))}'
        for k in ea:
            d = deep_eq(ea[k], eb[k], f'{path}.edges[{sorted(k)}]', memo)
            if d:
                return d
        return ''
    if type(a).__name__ in ('lock', 'ReplayLock'):
        return '' if a.locked() == b.locked() else f'{path}: lock held {a.locked()} vs {b.locked()}'
    if hasattr(a, '__dict__') and not isinstance(a, type):
        return deep_eq(a.__dict__, b.__dict__, path + '.__dict__', memo)
    return '' if a == b else f'{path}: {a!r:.80} vs {b!r:.80}'


# =========================================================================================== callers
class SymCaller:
    mode = 'sym'

    def __init__(self, I):
        self.I = I

    def call(self, fn, *args, **kwargs):
        return self.I.call(fn, list(args), kwargs)

    def getattr(self, obj, name):
        return self.I.getattr_(obj, name)

    def setattr(self, obj, name, value):
        return self.I.setattr_(obj, name, value)

    def attempt(self, fn, *args, **kwargs):
        """-> ('ok', value) | ('exc', exception object): lets a lemma harness go on after a rejected call"""
        try:
            return 'ok', self.I.call(fn, list(args), kwargs)
        except PyRaise as pr:
            return 'exc', pr.exc

    def op(self, opname, a, b):
        import ast
        return self.I.binop(getattr(ast, opname)(), a, b)

    def cmp(self, opname, a, b):
        import ast
        return self.I.compare(getattr(ast, opname)(), a, b)


class RealCaller:
    mode = 'real'

    def call(self, fn, *args, **kwargs):
        if isinstance(fn, (staticmethod, classmethod)):
            fn = fn.__func__
        return fn(*args, **kwargs)

    def getattr(self, obj, name):
        return getattr(obj, name)

    def setattr(self, obj, name, value):
        return setattr(obj, name, value)

    def attempt(self, fn, *args, **kwargs):
        try:
            return 'ok', self.call(fn, *args, **kwargs)
        except Exception as e:   # noqa
            return 'exc', e

    def op(self, opname, a, b):
        import operator as o
        return {'Add': o.add, 'Sub': o.sub, 'Mult': o.mul}[opname](a, b)

    def cmp(self, opname, a, b):
        import operator as o
        return {'Lt': o.lt, 'Gt': o.gt, 'LtE': o.le, 'GtE': o.ge, 'Eq': o.eq, 'NotEq': o.ne}[opname](a, b)


# =========================================================================================== contracts
class Contract:
    """
    target   'pkg.mod:Class.func' -- the real function under contract
    props    property ids served
    inputs(g)-> (args, kwargs)    -- symbolic inputs + requires (g.assume)
    body(h, *args, **kwargs)      -- default: call the target; lemma harnesses call several real functions
    ensures  {clause name: fn(pre, post) -> bool-ish}   (written with pyvc.spec only)
    """
    target = None
    props = ()
    ensures = {}
    extra_targets = ()          # further real functions whose source is part of this contract (lemma harnesses)
    max_paths = 5000
    known = {}                  # clause -> known-finding id whose class is excluded inside the clause itself
    hard_timeout_s = 0          # >0: every solver call runs in a forked child under this wall-clock limit (string theories)
    summaries = {}              # 'pkg.mod:Class.func' -> summary(I, args, kwargs): callee replaced by its CONTRACT
    faulting = False            # every operation on an unknown (AnyVal) value may also raise an arbitrary exception
    havoc_unmodelled = False    # calls of unmodelled library functions return unknown values instead of being unsupported
    no_crosscheck = False       # inputs are not reifiable (unknown values): the CPython cross-check is skipped
    bounded = None              # text describing the bound if this contract is a bounded stand-in (never counted as proved)

    @classmethod
    def name(cls):
        return cls.__name__

    def fn(self):
        raw, owner = loader.resolve(self.target)
        return loader.unwrap(raw)

    def body(self, h, *args, **kwargs):
        return h.call(self.fn(), *args, **kwargs)


def _describe(v, depth=0):
    if v is WILD:
        return '<opaque>'
    if isinstance(v, (type(None), bool, int, float, str)):
        return v
    if isinstance(v, (list, tuple)):
        return [_describe(x, depth + 1) for x in v]
    if isinstance(v, dict):
        return {str(k): _describe(x, depth + 1) for k, x in v.items()}
    if isinstance(v, BaseException):
        return f'{type(v).__name__}({", ".join(map(str, getattr(v, "args", ())))[:120]})'
    if hasattr(v, '__dict__') and depth < 6 and not isinstance(v, type):
        return {'__class__': type(v).__name__, **{k: _describe(x, depth + 1) for k, x in v.__dict__.items()}}
    return repr(v)[:200]


def run_real(contract, rargs, rkwargs):
    h = RealCaller()
    try:
        res = contract.body(h, *rargs, **rkwargs)
        return res, None
    except Exception as e:     # noqa -- the real code's exception is the observation
        return None, e


def _short(dec):
    return dec if len(dec) <= 24 else list(dec[:24]) + [f'... {len(dec)} decisions']


def verify_contract(contract_cls, rlimit=20_000_000, seed=0, crosscheck=True):
    """explore all paths of the contract body on the real AST; discharge every clause on every path"""
    t_start = time.time()
    C = contract_cls()
    shared = Shared(rlimit=rlimit, max_paths=C.max_paths)
    shared.hard_timeout_s = C.hard_timeout_s * (1 if rlimit <= 50_000_000 else 6)
    shared.faulting = C.faulting
    shared.field_hook = getattr(C, 'field_hook', None)
    shared.havoc_unmodelled = C.havoc_unmodelled
    out = dict(contract=C.name(), target=C.target, props=list(C.props), clauses={}, paths=0, feasible_paths=0,
               unsupported=[], faults=[], crosscheck=dict(compared=0, mismatches=[]), functions={}, trusted=[],
               solver_calls=0, solver_s=0.0, wall_s=0.0, exists=True)
    try:
        fn = C.fn()
        targets = [fn] + [loader.unwrap(loader.resolve(t)[0]) for t in C.extra_targets]
        for f in targets:
            if loader.is_python_function(f):
                info = loader.func_info(f)
                shared.functions[info['qualname']] = info
    except loader.LoadError as e:
        out['exists'] = False
        out['faults'].append(f'exists({C.target}): {e}')
        for cname in C.ensures:
            out['clauses'][cname] = dict(status='violated', reason=f'function under contract not found: {e}', paths=0,
                                         solver_s=0.0, witness=None, confirmed=False)
        return out
    for tgt, summ in C.summaries.items():
        shared.summaries[loader.unwrap(loader.resolve(tgt)[0])] = summ
        shared.trusted.add(f'callee {tgt} replaced by its contract (proved separately by this property\'s own obligations)')
    clause_state = {c: dict(status='discharged', paths=0, solver_s=0.0, witness=None, confirmed=False, backend='z3',
                            reason='') for c in C.ensures}
    worklist = [[]]
    npaths = 0
    while worklist:
        prefix = worklist.pop()
        npaths += 1
        if npaths > C.max_paths:
            out['unsupported'].append(f'path limit {C.max_paths} exceeded')
            break
        restarts = 0
        while True:
            ctx = Ctx(prefix, shared)
            I = Interp(ctx)
            g = Gen(ctx)
            status = 'ok'
            try:
                args, kwargs = C.inputs(g)
                init = snapshot((args, kwargs))
                pre_a, pre_k = snapshot((args, kwargs))
                try:
                    result = C.body(SymCaller(I), *args, **kwargs)
                    exc = None
                except PyRaise as pr:
                    result, exc = None, pr.exc
                break
            except Restart:
                restarts += 1
                if restarts > 50:
                    status = 'unsupported'
                    out['unsupported'].append('too many restarts')
                    break
                continue
            except Infeasible:
                status = 'infeasible'
                break
            except CannotConvert:
                status = 'unsupported'
                out['unsupported'].append('CannotConvert escaped')
                break
            except Unsupported as u:
                status = 'unsupported'
                out['unsupported'].append(f'{u} [path {_short(ctx.decisions)}]')
                break
            except RecursionError:
                status = 'unsupported'
                out['unsupported'].append('recursion limit')
                break
        worklist.extend(ctx.alts)
        if status != 'ok':
            continue
        out['paths'] += 1
        pre = Pre(pre_a, pre_k)
        post = Post(args, kwargs, result, exc)
        post.ghost = ctx.ghost
        model_pc = None
        r = ctx.check()
        if r == z3.unsat:
            continue          # path condition contradictory (possible after `unknown` feasibility answers)
        if r == z3.sat:
            out['feasible_paths'] += 1
            if crosscheck and out.get('crosscheck_s', 0) < (20 if rlimit <= 50_000_000 else 600):
                t1 = time.time()
                ctx.solver.set('timeout', 3000)
                _, model_pc = realistic_model(ctx, max_iter=4)
                ctx.solver.set('timeout', shared.timeout_ms)
                out['crosscheck_s'] = out.get('crosscheck_s', 0) + time.time() - t1
        # ---- side obligations recorded during execution (pre@callee ...)
        for sname, f in ctx.side:
            st = clause_state.setdefault(sname, dict(status='discharged', paths=0, solver_s=0.0, witness=None,
                                                     confirmed=False, backend='z3', reason=''))
            st['paths'] += 1
            if f is not True and st['status'] == 'discharged':
                st['status'] = 'violated'
                st['reason'] = str(f)
        # ---- clauses
        path_ok = {}
        for cname, clause in C.ensures.items():
            st = clause_state[cname]
            st['paths'] += 1
            t0 = time.time()
            try:
                f = clause(pre, post)
            except SpecError as e:
                out['faults'].append(f'{cname}: spec error {e}')
                st['status'] = 'fault'
                continue
            except Unsupported as e:
                out['unsupported'].append(f'{cname}: {e}')
                if st['status'] == 'discharged':
                    st['status'] = 'undecided'
                    st['reason'] = str(e)
                continue
            if f is True:
                path_ok[cname] = True
                continue
            neg = z3.BoolVal(True) if f is False else z3.Not(f.t)
            if os.environ.get('PYVC_TRACE'):
                print(f'[trace] {C.name()} {cname} path {ctx.decisions}', flush=True)
            r = ctx.check(neg, budget_ms=shared.z3_first_ms * 3)
            st['solver_s'] += time.time() - t0
            if not ctx.model_ok or shared.cvc5_decided:
                st['backend'] = 'z3+cvc5'
            if r == z3.unsat:
                path_ok[cname] = True
                continue
            if r == z3.unknown:
                if st['status'] == 'discharged':
                    st['status'] = 'undecided'
                    st['reason'] = f'z3 and cvc5 both unknown on path {_short(ctx.decisions)}: {ctx.solver.reason_unknown()}'
                continue
            # sat: counter-model -> replay on the real code
            if st['status'] == 'violated' and st['confirmed']:
                continue
            confirmed, witness = False, None
            blocks = []
            t1 = time.time()
            for attempt in range(4):
                rr, m = realistic_model(ctx, z3.And(neg, *blocks))
                if m is None:
                    break
                confirmed, witness = replay(C, init, cname, clause, m, ctx)
                if confirmed:
                    break
                # block this model's input values and try another one
                blk = []
                for nm, s in ctx.inputs:
                    try:
                        blk.append(s.t != m.eval(s.t, model_completion=True))
                    except z3.Z3Exception:
                        pass
                if not blk:
                    break
                blocks.append(z3.Or(*blk))
            out['replay_s'] = out.get('replay_s', 0) + time.time() - t1
            st['status'] = 'violated'
            st['confirmed'] = confirmed
            st['witness'] = witness
            st['reason'] = f'refuted on path {_short(ctx.decisions)}' + ('' if confirmed else ' (counter-model did not replay)')
        # ---- CPython cross-check of the encoding on this path
        if crosscheck and model_pc is not None:
            try:
                mism = '' if C.no_crosscheck else crosscheck_path(C, init, args, kwargs, result, exc, model_pc,
                                                                  proved=[c for c in C.ensures if path_ok.get(c)])
                out['crosscheck']['compared'] += 0 if C.no_crosscheck else 1
                if mism:
                    out['crosscheck']['mismatches'].append(f'path {_short(ctx.decisions)}: {mism}')
            except Exception as e:  # noqa
                out['crosscheck']['mismatches'].append(f'path {ctx.decisions}: cross-check crashed: {e!r} '
                                                       f'{traceback.format_exc()[-400:]}')
    out['clauses'] = clause_state
    if C.bounded:
        for cn, st in clause_state.items():
            st['bounded'] = True
        out['bounded'] = [dict(contract=C.name(), bound=C.bounded, obligations=sorted(clause_state))]
    out['trusted'] = sorted(shared.trusted)
    out['functions'] = {q: dict(file=i['file'], first=i['first'], last=i['last'], sha=i['sha'])
                        for q, i in shared.functions.items()}
    out['solver_calls'] = shared.solver_calls
    out['hard_timeouts'] = shared.hard_timeouts
    out['z3_unknown'] = shared.z3_unknown
    out['cvc5_decided'] = shared.cvc5_decided
    out['solver_s'] = round(shared.solver_time, 3)
    out['wall_s'] = round(time.time() - t_start, 3)
    if out['unsupported']:
        for st in clause_state.values():
            if st['status'] == 'discharged':
                st['status'] = 'undecided'
                st['reason'] = 'unsupported construct on some path: ' + out['unsupported'][0]
    if out['feasible_paths'] == 0 and not out['unsupported']:
        out['faults'].append('vacuous: no feasible path (contradictory requires?)')
    return out


def _collect_oracle_apps(terms, names):
    out, seen, stack = [], set(), list(terms)
    while stack:
        x = stack.pop()
        if x.get_id() in seen:
            continue
        seen.add(x.get_id())
        if z3.is_app(x) and x.num_args() > 0 and x.decl().kind() == z3.Z3_OP_UNINTERPRETED and x.decl().name() in names:
            out.append(x)
        stack.extend(x.children())
    return out


def _py_of_z3(t):
    if z3.is_string_value(t):
        return decode_z3_string(t)
    if z3.is_int_value(t):
        return t.as_long()
    if z3.is_true(t):
        return True
    if z3.is_false(t):
        return False
    return None


def realistic_model(ctx, extra=None, max_iter=10):
    """a model of pc (and extra) in which every uninterpreted stand-in of a real python function (int(), json validity)
    agrees with CPython on the arguments it is applied to.  -> (z3 result, model or None)"""
    from . import models
    orc = models.oracles()
    terms = list(ctx.pc) + ([extra] if extra is not None else [])
    apps = _collect_oracle_apps(terms, set(orc))
    s = ctx.solver
    s.push()
    depth = 1
    hinted = False
    try:
        if extra is not None:
            s.add(extra)
        for _ in range(max_iter):
            r = ctx.safe_check()
            if r != z3.sat:
                return r, None
            m = s.model()
            if not apps:
                return r, m
            facts = []
            for app in apps:
                f, real = orc[app.decl().name()]
                args = [m.eval(a, model_completion=True) for a in app.children()]
                pyargs = [_py_of_z3(a) for a in args]
                if any(a is None for a in pyargs):
                    continue
                val = real(*pyargs)
                if val is None:
                    continue
                zval = z3.BoolVal(val) if isinstance(val, bool) else z3.StringVal(val) if isinstance(val, str) else z3.IntVal(val)
                if not z3.is_true(m.eval(f(*args) == zval, model_completion=True)):
                    facts.append(f(*args) == zval)
            if not facts:
                return r, m
            s.add(*facts)
            # steer towards arguments on which the real function is known to say yes
            hints = []
            for app in apps:
                seeds = models.oracle_seeds().get(app.decl().name())
                if seeds and z3.is_true(m.eval(app, model_completion=True)):
                    hints.append(z3.Or(*[app.arg(0) == z3.StringVal(x) for x in seeds]))
                    for x in seeds:
                        s.add(app.decl()(z3.StringVal(x)) == z3.BoolVal(True))
            if hints and not hinted:
                s.push()
                s.add(*hints)
                if ctx.safe_check() == z3.sat:
                    hinted = True          # keep the hint scope open (closed by the outer pop via num_scopes bookkeeping)
                    depth += 1
                else:
                    s.pop()
        return z3.unknown, None
    finally:
        for _ in range(depth):
            s.pop()


def portfolio_check(ctx, neg):
    """second opinion from cvc5 on a query z3 could not decide"""
    import subprocess
    import tempfile
    import os
    s = z3.Solver()
    for f in ctx.pc:
        s.add(f)
    s.add(neg)
    smt = s.to_smt2()
    smt = '(set-logic ALL)\n' + smt
    with tempfile.NamedTemporaryFile('w', suffix='.smt2', delete=False) as f:
        f.write(smt)
        path = f.name
    try:
        r = subprocess.run(['/usr/bin/cvc5', '--strings-exp', '--tlimit=20000', path], capture_output=True, text=True,
                           timeout=40)
        ans = r.stdout.strip().splitlines()[0] if r.stdout.strip() else 'unknown'
    except Exception:
        ans = 'unknown'
    finally:
        os.unlink(path)
    return ans


def reify_inputs(init, model):
    R = Reifier(model)
    ia, ik = init
    return R(list(ia)), R(dict(ik))


def replay(C, init, cname, clause, model, ctx=None):
    """run the real code on the counter-model; the clause's concrete interpretation is the oracle"""
    if hasattr(C, 'replay_custom'):
        try:
            return C.replay_custom(ctx, cname, model)
        except Exception as e:  # noqa
            return False, dict(note=f'custom replay crashed: {e!r}', trace=traceback.format_exc()[-600:])
    try:
        rargs, rkwargs = reify_inputs(init, model)
        if contains_wild(rargs) or contains_wild(rkwargs):
            return False, dict(note='counter-model contains opaque values')
        pre = Pre(copy.deepcopy(rargs), copy.deepcopy(rkwargs))
        shown = _describe([pre.args, pre.kwargs])
        res, exc = run_real(C, rargs, rkwargs)
        post = Post(rargs, rkwargs, res, exc)
        ok = clause(pre, post)
        w = dict(inputs=shown, result=_describe(res), exception=_describe(exc) if exc is not None else None,
                 clause=cname, holds_on_real_code=bool(ok))
        return (not ok), w
    except Exception as e:  # noqa
        return False, dict(note=f'replay crashed: {e!r}', trace=traceback.format_exc()[-600:])


def crosscheck_path(C, init, args, kwargs, result, exc, model, proved=()):
    """same inputs through CPython: outcome and final state must equal the reified symbolic outcome, and every clause that
    was discharged on this path must also evaluate to true on the real run (guards the specification vocabulary itself)"""
    rargs, rkwargs = reify_inputs(init, model)
    if contains_wild(rargs) or contains_wild(rkwargs):
        return ''
    rpre = Pre(copy.deepcopy(rargs), copy.deepcopy(rkwargs))
    res, rexc = run_real(C, rargs, rkwargs)
    rpost = Post(rargs, rkwargs, res, rexc)
    for cname in proved:
        try:
            ok = C.ensures[cname](rpre, rpost)
        except Exception as e:   # noqa
            return f'clause {cname} cannot be evaluated on the real run: {e!r}'
        if not ok:
            return (f'clause {cname} was discharged symbolically but is FALSE on the real run for kwargs '
                    f'{_describe(rpre.kwargs)!r:.300} args {_describe(rpre.args)!r:.400}; real outcome: '
                    f'{"raised " + repr(rexc) if rexc is not None else "returned " + repr(_describe(res))[:200]}')
    R = Reifier(model)
    sym_res = R(result)
    sym_args = R(list(args))
    if (exc is None) != (rexc is None):
        return (f'symbolic {"raised " + exc.cls.__name__ if exc is not None else "returned"} but CPython '
                f'{"raised " + repr(rexc) if rexc is not None else "returned " + repr(res)[:80]} on {_describe(reify_inputs(init, model))!r:.300}')
    if exc is not None:
        if exc.cls is not type(rexc) and not getattr(exc.cls, '_pyvc_any_exception', False):
            return f'exception class {exc.cls.__name__} vs {type(rexc).__name__} on {_describe(reify_inputs(init, model))!r:.300}'
        return ''
    if hasattr(C, 'canon'):
        sym_res, res = C.canon(sym_res), C.canon(res)
    d = deep_eq(sym_res, res, 'result')
    if d:
        return d + f' on {_describe(reify_inputs(init, model))!r:.300}'
    if getattr(C, 'crosscheck_result_only', False):
        return ''
    d = deep_eq(sym_args, rargs, 'args')
    if d:
        return d + f' (final state) on {_describe(reify_inputs(init, model))!r:.300}'
    return ''
